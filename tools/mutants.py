#!/usr/bin/env python3
"""Sensitivity campaign (not registered in the manifest): apply each hand-written mutant to a scratch copy of
/repo/src under /tmp, run the named property checks against it (VERIF_REPO) and report whether they exit 1.

usage: tools/mutants.py [--only ID,ID] [--props C01,C02] [--tier quick] [--suite]   (--suite also runs the repo tests on the mutant)
"""
import argparse, json, os, shutil, subprocess, sys, tempfile, time

HERE = os.path.dirname(os.path.abspath(__file__))
VERIF = os.path.dirname(HERE)
MUTANTS = json.load(open(os.path.join(HERE, "mutants.json")))


def main():
    ap = argparse.ArgumentParser()
    ap.add_argument("--only")
    ap.add_argument("--props")
    ap.add_argument("--tier", default="quick")
    ap.add_argument("--suite", action="store_true")
    ap.add_argument("--seed", default="1")
    args = ap.parse_args()
    only = set(args.only.split(",")) if args.only else None
    props = set(args.props.split(",")) if args.props else None
    rows = []
    for m in MUTANTS:
        if only and m["id"] not in only:
            continue
        targets = [p for p in m["props"] if not props or p in props]
        if not targets:
            continue
        tmp = tempfile.mkdtemp(prefix="hgmut.")
        try:
            shutil.copytree("/repo/src", os.path.join(tmp, "src"))
            if args.suite:
                shutil.copytree("/repo/tests", os.path.join(tmp, "tests"))
                shutil.copy("/repo/pyproject.toml", tmp)
            for e in m["edits"]:
                path = os.path.join(tmp, "src/hypergraph", e["file"])
                s = open(path).read()
                if s.count(e["old"]) != 1:
                    print(f"!! {m['id']}: pattern occurs {s.count(e['old'])} times in {e['file']}")
                    raise SystemExit(2)
                open(path, "w").write(s.replace(e["old"], e["new"]))
            suite = ""
            if args.suite:
                r = subprocess.run(["/venv/bin/python", "-m", "pytest", "-q", "-x", "-p", "no:cacheprovider", "--timeout=900", "-n", "8", "tests"],
                                   cwd=tmp, env={**os.environ, "PYTHONPATH": os.path.join(tmp, "src")}, capture_output=True, text=True)
                suite = "suite=pass" if r.returncode == 0 else "suite=FAIL"
            for p in targets:
                t0 = time.time()
                r = subprocess.run([os.path.join(VERIF, "check"), p, "--tier", args.tier, "--no-corpus", "--seed", args.seed],
                                   env={**os.environ, "VERIF_REPO": tmp}, capture_output=True, text=True)
                first = next((l for l in r.stdout.splitlines() if l.startswith("  ")), "").strip()[:150]
                verdict = {1: "CAUGHT", 0: "missed", 2: "HARNESS-ERROR"}.get(r.returncode, f"rc={r.returncode}")
                rows.append((m["id"], p, verdict, round(time.time() - t0, 1), suite, first))
                print(f"{m['id']:28s} {p} {verdict:14s} {time.time()-t0:5.1f}s {suite} {first}", flush=True)
                if r.returncode == 2:
                    print(r.stderr[-1500:])
        finally:
            shutil.rmtree(tmp, ignore_errors=True)
    missed = [r for r in rows if r[2] != "CAUGHT"]
    print(f"\n{len(rows) - len(missed)}/{len(rows)} caught")
    return 1 if missed else 0


if __name__ == "__main__":
    sys.exit(main())
