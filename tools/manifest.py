#!/usr/bin/env python3
"""Regenerate MANIFEST.json from tools/claims.json (one entry per claimed property) and properties.jsonl."""
import json, os
HERE = os.path.dirname(os.path.abspath(__file__)); V = os.path.dirname(HERE)
props = [json.loads(l) for l in open(os.path.join(V, "properties.jsonl"))]
claims = json.load(open(os.path.join(HERE, "claims.json")))
checks = []
for pid, c in sorted(claims["claims"].items()):
    if not os.path.exists(os.path.join(V, "hgverif", "props", pid.lower() + ".py")):
        raise SystemExit(f"no module for {pid}")
    checks.append({
        "property_id": pid, "quick_cmd": f"./check {pid} --tier quick", "thorough_cmd": f"./check {pid} --tier thorough",
        "evidence_file": f"evidence/{pid}.json", "replay_cmd_template": f"./check {pid} --replay {{path}}", "engine": "hgverif",
        "level_claimed": {"category": c["level"], "text": c["text"], "design_ref": f"DESIGN.md section 4, {pid}"},
        "level_note": c["note"], "technique": c["technique"]})
na = [{"property_id": p["id"], "reason": claims["not_applicable"].get(p["id"], "check under construction in this round (designed in DESIGN.md section 4; this entry is replaced by a registered check once it is quiet on the unchanged tree)")}
      for p in props if p["id"] not in claims["claims"]]
m = {"version": 1, "setup_cmd": "./setup.sh",
     "hooks": {"guard": "HYPERGRAPH_VERIF", "enable": "no source hooks: checks import /repo/src as it is and observe it through the public API (runners, event processors, CacheBackend protocol, node functions written by the harness); the guard name is reserved and unused",
               "baseline_off_cmd": "cd /repo && /venv/bin/python -m pytest -ra -q -p no:cacheprovider --timeout=900 --continue-on-collection-errors", "source_commits": [], "add_only": True},
     "engines": [{"name": "hgverif", "path": "hgverif/", "serves_properties": sorted(claims["claims"]),
                  "kind_free_text": "Hypothesis 6.168 strategies and rule-based state machines over a JSON program IR compiled to hypergraph objects; independent reference evaluators; harness-owned asyncio scheduler with DFS schedule enumeration; enumerated fault injection; 8-16 sharded processes"}],
     "checks": checks,
     "notes": "See DESIGN.md. known_findings.json lists genuine defects (fixed: 'fix:' commits in /repo; open: printed as KNOWN-FINDING). tools/mutants.py is the hand-written sensitivity campaign; seeded/ holds independently written breaking changes with demonstrations.",
     "not_applicable": na}
json.dump(m, open(os.path.join(V, "MANIFEST.json"), "w"), indent=1)
try:
    import jsonschema
    jsonschema.validate(m, json.load(open(os.path.join(V, "schemas", "MANIFEST.schema.json"))))
    print("MANIFEST valid;", len(checks), "checks,", len(na), "not_applicable")
except ImportError:
    print("written (jsonschema not importable here)")
