#!/usr/bin/env python3
"""Write seeded/INDEX.md from seeded/*/meta.json (which check catches which independently written change)."""
import glob, json, os
ROUNDS = (1, 2, 3, 4, 5, 6)
V = os.path.dirname(os.path.dirname(os.path.abspath(__file__)))
rows = []
for mp in sorted(glob.glob(os.path.join(V, "seeded", "*", "meta.json"))):
    m = json.load(open(mp))
    det = m.get("detected_by", {})
    caught = sorted(k.split(":")[0] for k, v in det.items() if v["verdict"] == "CAUGHT")
    missed = sorted(k.split(":")[0] for k, v in det.items() if v["verdict"] != "CAUGHT")
    own = det.get(f"{m['breaks_property']}:quick", {})
    first = own.get("first_line", "") if own.get("verdict") == "CAUGHT" else next((v["first_line"] for v in det.values() if v["verdict"] == "CAUGHT"), "")
    need = " ".join(m.get("needs_to_manifest", "").split())[:160]
    if m.get("neutralised_by"):
        caught, missed, first = ["(neutralised: the demonstration passes on the current tree)"], [], ""
    rows.append((m["id"], m["breaks_property"], ", ".join(caught) or "-", ", ".join(missed) or "-", first.split(":")[0] if first else "", need))
with open(os.path.join(V, "seeded", "INDEX.md"), "w") as f:
    f.write("# Independently written breaking changes (sub-agents saw only the property text and a scratch worktree)\n\n")
    f.write("Each change: `patch.diff`, `demo.py` (fails with the change, passes without), `notes.md`, `meta.json` (confirmation + which checks caught it, quick tier).\n\n")
    f.write("| change | breaks | caught by (quick) | run and missed | first violation kind |\n|---|---|---|---|---|\n")
    for r in rows:
        f.write(f"| {r[0]} | {r[1]} | {r[2]} | {r[3]} | {r[4]} |\n")
    n = len(rows); c = sum(1 for r in rows if r[2] != "-")
    f.write(f"\n{c} of {n} changes are caught by at least one registered quick check.\n")
    # per round (ids -1..3 = round 1, -4..6 = round 2, ...) and property: caught by the property's own check / by any check
    f.write("\n## Summary per round (own check / any check, of 3)\n\n| property | " + " | ".join(f"round {k}" for k in ROUNDS) + " |\n|---|" + "---|" * len(ROUNDS) + "\n")
    props = sorted({r[1] for r in rows})
    tot = {k: [0, 0, 0] for k in ROUNDS}
    for pid in props:
        cells = []
        for k in ROUNDS:
            rs = [r for r in rows if r[1] == pid and (int(r[0].split("-")[1]) - 1) // 3 + 1 == k]
            own = sum(1 for r in rs if pid in r[2].split(", "))
            anyc = sum(1 for r in rs if r[2] != "-")
            tot[k][0] += own; tot[k][1] += anyc; tot[k][2] += len(rs)
            cells.append(f"{own} / {anyc}" if rs else "-")
        f.write(f"| {pid} | " + " | ".join(cells) + " |\n")
    f.write("| **all** | " + " | ".join(f"{tot[k][0]} / {tot[k][1]} of {tot[k][2]}" for k in ROUNDS) + " |\n")
    un = [r[0] for r in rows if r[2] == "-"]
    f.write(f"\nNot caught by any check that was run against them: {', '.join(un) or 'none'}.\n")
print(open(os.path.join(V, "seeded", "INDEX.md")).read()[-600:])
