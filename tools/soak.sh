#!/bin/bash
# Quietness soak (not registered): every quick check at seeds $1..$2 on the unchanged tree; prints only alarms / harness errors.
cd "$(dirname "$0")/.."
for s in $(seq ${1:-20} ${2:-29}); do
  for i in 01 02 03 04 05 06 07 08 09 10 11 12 13 14 15 16 17 18 19 20; do
    out=$(VERIF_SEED=$s VERIF_REPO=/repo ./check C$i --no-corpus 2>&1); rc=$?
    if [ $rc -ne 0 ]; then echo "seed=$s C$i rc=$rc"; echo "$out" | grep -v KNOWN-FINDING | tail -4 | cut -c1-400; fi
  done
  echo "seed $s done"
done
