#!/usr/bin/env python3
"""Confirm and evaluate independently written breaking changes.

  tools/seeded.py import /tmp/wt/C05/_seeded/1 --prop C05 [--id C05-1]    confirm (demo fails with / passes without, suite green) and copy to seeded/<id>/
  tools/seeded.py run [--only ID,..] [--props C05,C06 | --all-props]      run checks against each kept change (scratch copy of /repo/src + patch; VERIF_REPO)

Nothing is ever applied to /repo itself; scratch copies live under /tmp and are removed.
"""
import argparse, glob, json, os, shutil, subprocess, sys, tempfile, time

HERE = os.path.dirname(os.path.abspath(__file__)); V = os.path.dirname(HERE)
SEEDED = os.path.join(V, "seeded")
PY = "/venv/bin/python"


def scratch(patch):
    tmp = tempfile.mkdtemp(prefix="hgseed.")
    shutil.copytree("/repo/src", os.path.join(tmp, "src"))
    r = subprocess.run(["git", "apply", "--unsafe-paths", "--directory", tmp, patch], capture_output=True, text=True, cwd=tmp)
    if r.returncode != 0:
        r = subprocess.run(["patch", "-p1", "-d", tmp, "-i", patch], capture_output=True, text=True)
        if r.returncode != 0:
            shutil.rmtree(tmp); raise SystemExit(f"patch does not apply: {patch}\n{r.stdout}{r.stderr}")
    return tmp


def run_demo(demo, src):
    r = subprocess.run([PY, "-W", "ignore", demo], env={**os.environ, "PYTHONPATH": src, "PYTHONHASHSEED": "0"}, capture_output=True, text=True, cwd=os.path.dirname(demo))
    return r.returncode, (r.stdout + r.stderr)[-600:]


def run_suite(tmp):
    shutil.copytree("/repo/tests", os.path.join(tmp, "tests")); shutil.copy("/repo/pyproject.toml", tmp)
    xml = os.path.join(tmp, "junit.xml")
    subprocess.run([PY, "-m", "pytest", "-q", "-p", "no:cacheprovider", "--timeout=900", "-n", "8", "tests", f"--junitxml={xml}"],
                   cwd=tmp, env={**os.environ, "PYTHONPATH": os.path.join(tmp, "src")}, capture_output=True, text=True)
    import xml.etree.ElementTree as ET
    ts = ET.parse(xml).getroot(); ts = ts if ts.tag == "testsuite" else ts[0]
    a = ts.attrib
    return {"tests": int(a["tests"]), "failures": int(a["failures"]), "errors": int(a["errors"]), "skipped": int(a["skipped"])}


def cmd_import(args):
    src_dir = args.path.rstrip("/")
    sid = args.id or f"{args.prop}-{os.path.basename(src_dir)}"
    patch, demo = os.path.join(src_dir, "patch.diff"), os.path.join(src_dir, "demo.py")
    tmp = scratch(patch)
    try:
        rc_with, out_with = run_demo(demo, os.path.join(tmp, "src"))
        rc_without, out_without = run_demo(demo, "/repo/src")
        suite = run_suite(tmp)
    finally:
        shutil.rmtree(tmp, ignore_errors=True)
    ok = rc_with != 0 and rc_without == 0 and suite["failures"] == 0 and suite["errors"] == 0 and suite["tests"] - suite["skipped"] == 1626
    print(f"{sid}: demo with change rc={rc_with}, without rc={rc_without}, suite={suite} -> {'KEEP' if ok else 'REJECT'}")
    if not ok:
        print(out_with[-300:]); print(out_without[-300:]); return 1
    dst = os.path.join(SEEDED, sid); os.makedirs(dst, exist_ok=True)
    for f in ("patch.diff", "demo.py", "notes.md"):
        if os.path.exists(os.path.join(src_dir, f)):
            shutil.copy(os.path.join(src_dir, f), dst)
    notes = open(os.path.join(src_dir, "notes.md")).read() if os.path.exists(os.path.join(src_dir, "notes.md")) else ""
    meta = {"id": sid, "breaks_property": args.prop, "origin": "independent sub-agent given only the property text and a scratch worktree",
            "needs_to_manifest": notes[:1500],
            "confirmed": {"demo_with_change_rc": rc_with, "demo_without_change_rc": rc_without, "suite_with_change": suite,
                          "how": "scratch copy of /repo/src + patch under /tmp; demo run with PYTHONPATH=<scratch>/src and with /repo/src; full repo test suite (-n 8) on the scratch copy"},
            "detected_by": {}}
    json.dump(meta, open(os.path.join(dst, "meta.json"), "w"), indent=1)
    return 0


def cmd_run(args):
    only = set(args.only.split(",")) if args.only else None
    rows = []
    for d in sorted(glob.glob(os.path.join(SEEDED, "*"))):
        mp = os.path.join(d, "meta.json")
        if not os.path.exists(mp):
            continue
        meta = json.load(open(mp)); sid = meta["id"]
        if only and sid not in only:
            continue
        if args.all_props:
            props = [c["property_id"] for c in json.load(open(os.path.join(V, "MANIFEST.json")))["checks"]]
        elif args.props:
            props = args.props.split(",")
        else:
            props = [meta["breaks_property"]]
        tmp = scratch(os.path.join(d, "patch.diff"))
        try:
            for p in props:
                if not os.path.exists(os.path.join(V, "hgverif", "props", p.lower() + ".py")):
                    continue
                t0 = time.time()
                r = subprocess.run([os.path.join(V, "check"), p, "--tier", args.tier, "--no-corpus", "--seed", args.seed], env={**os.environ, "VERIF_REPO": tmp}, capture_output=True, text=True)
                first = next((l for l in r.stdout.splitlines() if l.startswith("  ")), "").strip()[:160]
                verdict = {1: "CAUGHT", 0: "missed", 2: "HARNESS-ERROR"}.get(r.returncode, f"rc={r.returncode}")
                print(f"{sid:10s} {p} {verdict:14s} {time.time()-t0:5.1f}s {first}", flush=True)
                if r.returncode == 2:
                    print(r.stderr[-1200:])
                meta["detected_by"][f"{p}:{args.tier}"] = {"verdict": verdict, "first_line": first}
                rows.append((sid, p, verdict))
            json.dump(meta, open(mp, "w"), indent=1)
        finally:
            shutil.rmtree(tmp, ignore_errors=True)
    print(f"\n{sum(1 for r in rows if r[2]=='CAUGHT')}/{len(rows)} caught")


ap = argparse.ArgumentParser(); sub = ap.add_subparsers(dest="cmd", required=True)
a = sub.add_parser("import"); a.add_argument("path"); a.add_argument("--prop", required=True); a.add_argument("--id")
b = sub.add_parser("run"); b.add_argument("--only"); b.add_argument("--props"); b.add_argument("--all-props", action="store_true"); b.add_argument("--tier", default="quick"); b.add_argument("--seed", default="1")
args = ap.parse_args()
sys.exit({"import": cmd_import, "run": cmd_run}[args.cmd](args))
