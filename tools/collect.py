#!/usr/bin/env python3
"""Root-cause census (not registered): keep generating after failures, bucket by violation signature, show one small case per bucket.
usage: tools/collect.py C20 [n_cases] [seed]"""
import json, os, sys
sys.path.insert(0, os.path.dirname(os.path.dirname(os.path.abspath(__file__))))
os.environ.setdefault("PYTHONHASHSEED", "0")
import logging; logging.disable(logging.CRITICAL)
import warnings; warnings.simplefilter("ignore")
from hypothesis import given, settings, seed, HealthCheck, Phase
from hgverif import use_repo; use_repo()
from hgverif.cli import load_prop
from hgverif.core import Evidence, Violation, canon
pid = sys.argv[1]; n = int(sys.argv[2]) if len(sys.argv) > 2 else 300; sd = int(sys.argv[3]) if len(sys.argv) > 3 else 1
mod = load_prop(pid); ev = Evidence("quick"); buckets = {}
@seed(sd)
@settings(max_examples=n, database=None, deadline=None, phases=[Phase.generate], suppress_health_check=list(HealthCheck))
@given(mod.strategy("quick"))
def t(case):
    try:
        mod.check_case(case, ev)
    except Violation as v:
        key = canon(v.sig)
        b = buckets.setdefault(key, {"n": 0, "case": None, "detail": None})
        b["n"] += 1
        if b["case"] is None or len(canon(case)) < len(canon(b["case"])):
            b["case"], b["detail"] = case, v.detail
t()
print("cases", ev.evaluations + sum(b["n"] for b in buckets.values()), "ok", ev.evaluations)
for k, b in sorted(buckets.items(), key=lambda kv: -kv[1]["n"]):
    print(f"\n== {b['n']:4d} x {k}\n   {b['detail'][:400]}")
if "--dump" in sys.argv:
    json.dump({k: b["case"] for k, b in buckets.items()}, open("/tmp/collect_cases.json", "w"), indent=1)
