#!/bin/bash
# Offline setup: make sure hypothesis and jsonschema import under /venv/bin/python (beside the repository's packages).
cd "$(dirname "$0")" || exit 2
export PIP_NO_INDEX=1
need=""
for m in hypothesis jsonschema; do
  PYTHONPATH="$PWD/.deps" /venv/bin/python -c "import $m" 2>/dev/null || need="$need $m"
done
if [ -n "$need" ]; then
  mkdir -p .deps
  /venv/bin/pip install --quiet --no-index --find-links /opt/veriftools/wheels --target "$PWD/.deps" $need || exit 2
fi
PYTHONPATH="$PWD:$PWD/.deps" /venv/bin/python -c "import hypothesis, jsonschema, hgverif.cli; print('setup ok: hypothesis', hypothesis.__version__)" || exit 2
mkdir -p evidence replays
exit 0
