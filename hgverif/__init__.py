"""hgverif - property-based verification harness for gilad-rubin/hypergraph (see /verif/DESIGN.md)."""
import os
import sys

HARNESS_VERSION = 1
VERIF_DIR = os.path.dirname(os.path.dirname(os.path.abspath(__file__)))
REPO = os.environ.get("VERIF_REPO", "/repo")


def use_repo():
    """Make `import hypergraph` resolve to the working tree under $VERIF_REPO (default /repo)."""
    src = os.path.join(REPO, "src")
    if src not in sys.path:
        sys.path.insert(0, src)
    if os.environ.get("VERIF_REPO"):
        import hypergraph  # noqa: F401

        got = os.path.realpath(os.path.dirname(hypergraph.__file__))
        want = os.path.realpath(os.path.join(src, "hypergraph"))
        if got != want:
            raise RuntimeError(f"hypergraph imported from {got}, expected {want}")
