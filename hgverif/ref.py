"""Independent reference evaluators over the program IR (no hypergraph imports)."""
from __future__ import annotations

import itertools

from .build import T


def producers(nodes):
    """output name -> node spec (G1: unique producers)."""
    return {o: n for n in nodes for o in n.get("outs", [])}


def fid(n):
    return n.get("fid", n["name"])


def node_defaults(n):
    return {p: T(v) for p, v in n.get("defaults", {}).items()}


def out_terms(n, args):
    f = fid(n)
    outs = n.get("outs", [])
    if "ret" in n and len(outs) == 1:
        return {outs[0]: T(n["ret"])}
    return {o: (f, i, args) for i, o in enumerate(outs)}


def eval_dag(nodes, values, bound=None, active=None, answers=None):
    """Dependency-order evaluation of a flat acyclic program.

    Each parameter takes the first available of: output of its (runnable, active) producer, run-time
    value, bound value, signature default.  A node with an unresolvable parameter is not runnable.
    `answers`: {interrupt node name: {output: term}} - interrupts behave as nodes producing these.
    Returns (env, args) with args[name] = argument tuple or None when not runnable.
    """
    bound = bound or {}
    prod = producers(nodes)
    env: dict = {}
    args: dict = {}

    def resolve(p):
        n = prod.get(p)
        if n is not None and (active is None or n["name"] in active):
            if run(n) is not None and p in env:
                return True, env[p]
        if p in values:
            return True, values[p]
        if p in bound:
            return True, bound[p]
        return False, None

    def run(n):
        name = n["name"]
        if name in args:
            return args[name]
        args[name] = None  # cycle guard (G1 is acyclic)
        d = node_defaults(n)
        got = []
        for p in n.get("params", []):
            ok, v = resolve(p)
            if not ok:
                if p in d:
                    v = d[p]
                else:
                    return None
            got.append(v)
        a = tuple(got)
        args[name] = a
        if n["k"] == "interrupt":
            if answers is not None and name in answers:
                env.update(answers[name])
            else:
                args[name] = a  # ran, produced nothing (paused)
        else:
            env.update(out_terms(n, a))
        return a

    for n in nodes:
        if active is None or n["name"] in active:
            run(n)
    return env, args


def single_shot(nodes, values, bound=None):
    """Nodes that must be invoked exactly once: no upstream-fed parameter with any fallback, transitively."""
    bound = bound or {}
    prod = producers(nodes)
    memo: dict = {}

    def ss(n):
        name = n["name"]
        if name in memo:
            return memo[name]
        memo[name] = True
        d = n.get("defaults", {})
        ok = True
        for p in n.get("params", []):
            if p in prod:
                if p in d or p in bound or p in values:
                    ok = False
                elif not ss(prod[p]):
                    ok = False
        memo[name] = ok
        return ok

    return {n["name"] for n in nodes if ss(n)}


def data_preds(nodes):
    prod = producers(nodes)
    return {n["name"]: {prod[p]["name"] for p in n.get("params", []) if p in prod} for n in nodes}


def descendants(nodes, roots):
    preds = data_preds(nodes)
    succ = {n["name"]: set() for n in nodes}
    for c, ps in preds.items():
        for p in ps:
            succ[p].add(c)
    seen = set(roots)
    stack = list(roots)
    while stack:
        x = stack.pop()
        for y in succ[x]:
            if y not in seen:
                seen.add(y)
                stack.append(y)
    return seen


def ancestors_closure(nodes, targets):
    preds = data_preds(nodes)
    seen = set(targets)
    stack = list(targets)
    while stack:
        x = stack.pop()
        for y in preds[x]:
            if y not in seen:
                seen.add(y)
                stack.append(y)
    return seen


def _closure(nodes, roots, forward, ordering):
    """Reachability over data edges and, optionally, ordering (wait_for) edges."""
    prod = producers(nodes)
    emit = {o: n["name"] for n in nodes for o in n.get("emit", [])}
    edges = {n["name"]: set() for n in nodes}
    for n in nodes:
        srcs = {prod[p]["name"] for p in n.get("params", []) if p in prod}
        if ordering:
            srcs |= {(prod[w]["name"] if w in prod else emit[w]) for w in n.get("wait_for", []) if w in prod or w in emit}
        for s_ in srcs:
            if forward:
                edges[s_].add(n["name"])
            else:
                edges[n["name"]].add(s_)
    seen, stack = set(roots), list(roots)
    while stack:
        x = stack.pop()
        for y in edges[x]:
            if y not in seen:
                seen.add(y)
                stack.append(y)
    return seen


def input_spec(nodes, bound=None, select=None, entry=None, drop=(), ordering=False):
    """Reference input classification for gate-free acyclic programs: (required, optional) as sets.
    ordering=True: a node that waits for a name is downstream of that name's producer (for scoping by select / entry points)."""
    bound = bound or {}
    prod = producers(nodes)
    active = {n["name"] for n in nodes} - set(drop)
    if entry is not None:
        active = _closure(nodes, entry, True, ordering) if ordering else descendants(nodes, entry)
    if select is not None:
        sel_prod = {prod[o]["name"] for o in select if o in prod and prod[o]["name"] in active}
        back = (_closure(nodes, sel_prod, False, ordering) if ordering else ancestors_closure(nodes, sel_prod)) if sel_prod else set()
        active = active & back
    act = [n for n in nodes if n["name"] in active]
    edge_produced = set()
    for n in act:
        for p in n.get("params", []):
            if p in prod and prod[p]["name"] in active:
                edge_produced.add(p)
    required, optional = set(), set()
    for n in act:
        for p in n.get("params", []):
            if p in edge_produced:
                continue
            has_default = any(p in m.get("defaults", {}) for m in act if p in m.get("params", []))
            if p in bound or has_default:
                optional.add(p)
            else:
                required.add(p)
    return required - optional, optional, active


def depth(nodes):
    """Dependency depth (longest data path from a source) per node."""
    preds = data_preds(nodes)
    memo: dict = {}

    def d(x):
        if x not in memo:
            memo[x] = 0 if not preds[x] else 1 + max(d(p) for p in preds[x])
        return memo[x]

    return {n["name"]: d(n["name"]) for n in nodes}


def shape_labels(nodes):
    """Structural labels of a flat program (for the generator histogram and non-triviality rules)."""
    labs = set()
    prod = producers(nodes)
    cons: dict = {}
    nedges = 0
    for n in nodes:
        for i, p in enumerate(n.get("params", [])):
            if p in prod:
                nedges += 1
                cons.setdefault(p, []).append(n["name"])
                if p in n.get("defaults", {}):
                    labs.add("default_shadowed_by_edge")
                src = prod[p]
                if len(src.get("outs", [])) >= 2 and src["outs"].index(p) >= 1:
                    labs.add("multi_output_pos>=1")
        if not n.get("outs"):
            labs.add("side_effect_node")
        if len(n.get("outs", [])) >= 2:
            labs.add("multi_output")
        if sum(1 for p in n.get("params", []) if p in prod) >= 2:
            labs.add("fan_in")
    for p, cs in cons.items():
        if len(cs) >= 2:
            labs.add("fan_out")
    # diamond: a node with two distinct predecessor nodes sharing an ancestor
    preds = data_preds(nodes)
    anc = {n["name"]: ancestors_closure(nodes, {n["name"]}) for n in nodes}
    for n in nodes:
        ps = list(preds[n["name"]])
        for a, b in itertools.combinations(ps, 2):
            if (anc[a] & anc[b]) or a in anc[b] or b in anc[a]:
                labs.add("diamond")
    shared = {}
    for n in nodes:
        for p in n.get("params", []):
            if p not in prod:
                shared.setdefault(p, []).append(n["name"])
    if any(len(v) >= 2 for v in shared.values()):
        labs.add("shared_input")
    return labs, nedges


def expand_map(values, map_over, mode):
    """Input combinations of a map call, in input order."""
    mapped = {k: values[k] for k in map_over}
    broadcast = {k: v for k, v in values.items() if k not in map_over}
    if mode == "zip":
        lens = {len(v) for v in mapped.values()}
        if len(lens) > 1:
            raise ValueError("unequal")
        n = lens.pop() if lens else 0
        return [{**broadcast, **{k: mapped[k][i] for k in map_over}} for i in range(n)]
    combos = itertools.product(*[mapped[k] for k in map_over])
    return [{**broadcast, **dict(zip(map_over, c))} for c in combos]


class LRU:
    def __init__(self, max_size):
        self.max = max_size
        self.d: dict = {}

    def get(self, k):
        if k in self.d:
            v = self.d.pop(k)
            self.d[k] = v
            return True, v
        return False, None

    def set(self, k, v):
        if k in self.d:
            self.d.pop(k)
        self.d[k] = v
        if self.max is not None and len(self.d) > self.max:
            del self.d[next(iter(self.d))]
