"""./check <ID> --tier quick|thorough   |   ./check <ID> --replay <file>   (see DESIGN.md section 2)."""
from __future__ import annotations

import argparse
import glob
import importlib
import json
import math
import os
import shutil
import subprocess
import sys
import tempfile
import time
import traceback

from . import HARNESS_VERSION, REPO, VERIF_DIR, use_repo
from .core import Evidence, HarnessError, Violation, canon, case_hash, match_open, open_findings


# Sensitivity runs against a mutated scratch copy (VERIF_REPO) must not overwrite the real evidence/replays.
OUT_DIR = VERIF_DIR if os.path.realpath(REPO) == "/repo" else os.path.join(REPO, ".hgverif-out")


class _Abort(BaseException):
    """Carries a harness error out of Hypothesis without shrinking."""


def load_prop(pid: str):
    return importlib.import_module(f"hgverif.props.{pid.lower()}")


# ------------------------------------------------------------------------------------
# one shard = one process = one Hypothesis run
# ------------------------------------------------------------------------------------

SHRINK_CALL_CAP = {"quick": 400, "thorough": 3000}


def _guarded(mod, ev, holder, tier):
    """Wrap mod.check_case: known findings pass (counted); harness errors abort; shrinking is call-capped."""
    state = {"failing": None, "calls_after_fail": 0, "all_failing": set()}
    cap = SHRINK_CALL_CAP[tier]

    def run(case, fn=None):
        # fn is given by state machines (one step of a history): no shrink cap there, a skipped step would corrupt the history
        if fn is None and state["failing"] is not None:
            state["calls_after_fail"] += 1
            if state["calls_after_fail"] > cap and canon(case) not in state["all_failing"]:
                return  # stop exploring shrinks; Hypothesis will replay the best failure it has seen (one of all_failing)
        holder["case"] = case
        try:
            if fn is not None:
                fn()
            else:
                mod.check_case(case, ev)
        except Violation as v:
            known = match_open(mod.ID, v.sig)
            if known is not None:
                ev.known_excluded[known["id"]] += 1
                return
            state["failing"] = canon(case)
            state["all_failing"].add(state["failing"])
            holder["violation"] = {"kind": v.kind, "signature": v.sig, "detail": v.detail[:4000]}
            raise
        except HarnessError:
            holder["harness_error"] = traceback.format_exc()
            raise _Abort() from None
        except Exception:
            holder["harness_error"] = traceback.format_exc()
            raise _Abort() from None

    return run


def run_shard(pid: str, tier: str, seed: int, shard: int, nshards: int) -> dict:
    use_repo()
    import hypothesis
    from hypothesis import HealthCheck, Phase, Verbosity, given, settings
    from hypothesis import seed as hseed

    mod = load_prop(pid)
    ev = Evidence(tier)
    holder: dict = {}
    out = {"shard": shard, "violation": None, "error": None}
    budget = mod.BUDGET[tier]
    n = max(1, math.ceil(budget / nshards))
    shard_seed = seed * 64 + shard
    common = dict(
        max_examples=n,
        database=None,
        deadline=None,
        derandomize=False,
        report_multiple_bugs=False,
        verbosity=Verbosity.quiet,
        suppress_health_check=[HealthCheck.too_slow, HealthCheck.data_too_large, HealthCheck.large_base_example],
        phases=[Phase.generate, Phase.shrink],
    )
    t0 = time.time()
    try:
        # finite enumerations / fixed parts run in shard 0 only
        if shard == 0 and hasattr(mod, "exhaustive"):
            try:
                mod.exhaustive(tier, ev, holder)
            except Violation as v:
                known = match_open(mod.ID, v.sig)
                if known is None:
                    holder["violation"] = {"kind": v.kind, "signature": v.sig, "detail": v.detail[:4000]}
                    raise
        if hasattr(mod, "machine"):
            from hypothesis.stateful import run_state_machine_as_test

            steps = mod.STEPS[tier]
            guarded = _guarded(mod, ev, holder, tier)
            Machine = mod.machine(tier, ev, holder, guarded)
            mcommon = dict(common)
            if tier == "quick":
                mcommon["phases"] = [Phase.generate]  # histories are short; an unshrunk history is still a replay
            run_state_machine_as_test(hseed(shard_seed)(Machine), settings=settings(stateful_step_count=steps, **mcommon))
        elif hasattr(mod, "strategy"):
            guarded = _guarded(mod, ev, holder, tier)

            @hseed(shard_seed)
            @settings(**common)
            @given(mod.strategy(tier))
            def test(case):
                guarded(case)

            test()
    except _Abort:
        out["error"] = holder.get("harness_error", "abort")
    except Violation:
        out["violation"] = {**holder.get("violation", {}), "case": holder.get("case"), "seed": shard_seed}
    except hypothesis.errors.FailedHealthCheck:
        out["error"] = "generator health check failed:\n" + traceback.format_exc()
    except hypothesis.errors.Flaky:
        # Hypothesis saw the same case fail and then pass (or fail differently). If the recorded case still violates the
        # property when re-run outside Hypothesis it is reported as a violation (the code under test may itself be
        # order- or id-dependent); if it never does, the non-determinism is the harness's and that is an error.
        out["error"] = "flaky (non-deterministic) check:\n" + traceback.format_exc()
        if holder.get("violation") and holder.get("case") is not None and not hasattr(mod, "machine"):
            hits = 0
            for _ in range(3):
                try:
                    mod.check_case(holder["case"], Evidence(tier))
                except Violation as v:
                    if match_open(mod.ID, v.sig) is None:
                        hits += 1
                        holder["violation"] = {"kind": v.kind, "signature": v.sig, "detail": (v.detail + f" [non-deterministic: seen again outside Hypothesis]")[:4000]}
                except Exception:  # noqa: BLE001
                    pass
            if hits:
                out["error"] = None
                out["violation"] = {**holder["violation"], "case": holder["case"], "seed": shard_seed}
    except Exception:
        if holder.get("violation"):
            out["violation"] = {**holder["violation"], "case": holder.get("case"), "seed": shard_seed}
        else:
            out["error"] = traceback.format_exc()
    out["ev"] = ev.dump()
    out["wall_s"] = time.time() - t0
    return out


# ------------------------------------------------------------------------------------
# parent: replay corpus, shards, evidence, exit code
# ------------------------------------------------------------------------------------


def write_replay(pid: str, viol: dict, tier: str) -> str:
    d = os.path.join(OUT_DIR, "replays", pid)
    os.makedirs(d, exist_ok=True)
    body = {
        "property": pid,
        "harness_version": HARNESS_VERSION,
        "tier": tier,
        "seed": viol.get("seed"),
        "hashseed": os.environ.get("PYTHONHASHSEED"),
        "case": viol.get("case"),
        "violation": {k: viol.get(k) for k in ("kind", "signature", "detail")},
    }
    path = os.path.join(d, f"found-{case_hash(viol.get('case'))}.json")
    with open(path, "w") as f:
        json.dump(body, f, indent=1, sort_keys=True, default=repr)
    return os.path.relpath(path, VERIF_DIR) if OUT_DIR == VERIF_DIR else path


def replay_file(mod, path: str, ev: Evidence):
    """Run one saved case through the oracle, bypassing Hypothesis. Returns violation dict or None."""
    with open(path) as f:
        body = json.load(f)
    case = body["case"]
    try:
        mod.check_case(case, ev)
    except Violation as v:
        known = match_open(mod.ID, v.sig)
        if known is not None:
            ev.known_excluded[known["id"]] += 1
            return None
        return {"kind": v.kind, "signature": v.sig, "detail": v.detail[:4000], "case": case, "seed": body.get("seed")}
    return None


def write_evidence(mod, tier, seed, ev: Evidence, wall, nviol, nshards):
    cov = {
        "evaluations": ev.evaluations,
        "distinct_nontrivial": len(ev.nontrivial),
        "distinct_cases": len(ev.distinct),
        "rule": mod.RULE,
        "samples": ev.samples if ev.samples else [],
        "classes": dict(sorted(ev.classes.items())),
        "discarded": dict(ev.discarded),
        "known_excluded": dict(ev.known_excluded),
        "counters": dict(sorted(ev.counters.items())),
        "shards": nshards,
        "repo": REPO,
    }
    cov.update(ev.extra)
    body = {
        "property_id": mod.ID,
        "tier": tier,
        "seed": seed,
        "level": mod.LEVEL,
        "coverage": cov,
        "assumptions": list(getattr(mod, "ASSUMPTIONS", [])),
        "wall_s": round(wall, 2),
        "violations": nviol,
    }
    path = os.path.join(OUT_DIR, "evidence", f"{mod.ID}.json")
    os.makedirs(os.path.dirname(path), exist_ok=True)
    with open(path, "w") as f:
        json.dump(body, f, indent=1, default=repr)
    try:
        import jsonschema

        with open(os.path.join(VERIF_DIR, "schemas", "EVIDENCE.schema.json")) as f:
            schema = json.load(f)
        jsonschema.validate(body, schema)
    except ImportError:
        pass
    return path


def main(argv=None) -> int:
    ap = argparse.ArgumentParser(prog="check")
    ap.add_argument("prop")
    ap.add_argument("--tier", default=os.environ.get("VERIF_TIER", "quick"), choices=["quick", "thorough"])
    ap.add_argument("--replay")
    ap.add_argument("--seed", type=int, default=int(os.environ.get("VERIF_SEED", "1") or 1))
    ap.add_argument("--shards", type=int)
    ap.add_argument("--shard", type=int, help="internal: run one shard and write its result to --out")
    ap.add_argument("--out")
    ap.add_argument("--no-corpus", action="store_true")
    ap.add_argument("--scale", type=float, default=float(os.environ.get("VERIF_SCALE", "1")), help="multiply the case budget")
    args = ap.parse_args(argv)
    pid = args.prop.upper()

    use_repo()
    import logging

    logging.disable(logging.CRITICAL)  # the library logs every swallowed observer/cache fault with a traceback
    mod = load_prop(pid)
    if args.scale != 1:
        mod.BUDGET = {k: max(1, int(v * args.scale)) for k, v in mod.BUDGET.items()}

    # ---- internal shard mode
    if args.shard is not None:
        res = run_shard(pid, args.tier, args.seed, args.shard, args.shards)
        with open(args.out, "w") as f:
            json.dump(res, f, default=repr)
        return 0

    # ---- single replay
    if args.replay:
        ev = Evidence(args.tier)
        v = replay_file(mod, args.replay, ev)
        if v is not None:
            print(f"VIOLATION property={pid} replay={args.replay}")
            print(f"  {v['kind']}: {v['detail'][:1500]}")
            return 1
        print(f"replay ok: {args.replay}")
        return 0

    t0 = time.time()
    ev = Evidence(args.tier)
    violations = []
    for f in open_findings(pid):
        print(f"KNOWN-FINDING: property={pid} {f['what']}")

    # ---- replay corpus first
    if not args.no_corpus:
        for path in sorted(glob.glob(os.path.join(VERIF_DIR, "replays", pid, "*.json"))):
            v = replay_file(mod, path, ev)
            ev.count("corpus_replayed")
            if v is not None:
                violations.append((v, os.path.relpath(path, VERIF_DIR)))
                break

    # ---- shards
    nshards = args.shards or mod.SHARDS[args.tier]
    errors = []
    if not violations:
        tmp = tempfile.mkdtemp(prefix=f"hgverif-{pid}-")
        try:
            procs = []
            for i in range(nshards):
                env = dict(os.environ)
                env["PYTHONHASHSEED"] = str(i) if args.tier == "thorough" else os.environ.get("PYTHONHASHSEED", "0")
                out = os.path.join(tmp, f"shard{i}.json")
                cmd = [sys.executable, "-W", "ignore", "-m", "hgverif.cli", pid, "--tier", args.tier, "--seed", str(args.seed),
                       "--shard", str(i), "--shards", str(nshards), "--out", out, "--scale", str(args.scale)]
                procs.append((i, out, subprocess.Popen(cmd, env=env, cwd=VERIF_DIR, stdout=subprocess.PIPE, stderr=subprocess.STDOUT, text=True)))
            # wall-clock guard against a hang of the code under test that no in-process detector caught: INCONCLUSIVE (exit 2), never a verdict
            guard = float(os.environ.get("HGVERIF_SHARD_TIMEOUT", "1500" if args.tier == "quick" else "21600"))
            for i, out, p in procs:
                try:
                    stdout, _ = p.communicate(timeout=max(1.0, guard - (time.time() - t0)))
                except subprocess.TimeoutExpired:
                    p.kill()
                    stdout, _ = p.communicate()
                    errors.append(f"shard {i} exceeded the {guard:.0f}s wall-clock guard and was stopped (inconclusive)\n{stdout[-1500:]}")
                    continue
                if p.returncode != 0 or not os.path.exists(out):
                    errors.append(f"shard {i} died rc={p.returncode}\n{stdout[-3000:]}")
                    continue
                with open(out) as f:
                    res = json.load(f)
                ev.merge(res["ev"])
                if res["error"]:
                    errors.append(f"shard {i}: {res['error']}")
                if res["violation"]:
                    violations.append((res["violation"], None))
        finally:
            shutil.rmtree(tmp, ignore_errors=True)

    if hasattr(mod, "finalize"):
        mod.finalize(ev, args.tier)

    wall = time.time() - t0
    # keep the smallest violation (shortest canonical case)
    rc = 0
    if violations:
        violations.sort(key=lambda vp: len(canon(vp[0].get("case"))))
        v, path = violations[0]
        if path is None:
            path = write_replay(pid, v, args.tier)
        print(f"VIOLATION property={pid} replay={path}")
        print(f"  {v.get('kind')}: {str(v.get('detail'))[:1500]}")
        rc = 1
    try:
        write_evidence(mod, args.tier, args.seed, ev, wall, len(violations), nshards)
    except Exception:
        if rc == 0 and not errors:
            # too little non-trivial coverage to make the claim: a harness problem, not a pass
            errors.append("evidence invalid:\n" + traceback.format_exc())
    if errors and rc == 0:
        print("HARNESS-ERROR", file=sys.stderr)
        for e in errors:
            print(e, file=sys.stderr)
        return 2
    print(f"{pid} {args.tier}: evaluations={ev.evaluations} distinct_nontrivial={len(ev.nontrivial)} "
          f"known_excluded={sum(ev.known_excluded.values())} discarded={sum(ev.discarded.values())} wall={wall:.1f}s rc={rc}")
    return rc


if __name__ == "__main__":
    try:
        sys.exit(main())
    except SystemExit:
        raise
    except BaseException:
        traceback.print_exc()
        sys.exit(2)
