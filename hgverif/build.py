"""Program IR -> hypergraph objects.  The IR is plain JSON (dicts/lists/str/int); see DESIGN.md 3.1.

Values are symbolic terms: JSON lists in the IR, tuples at run time (`T`).  Every generated node function
appends (fid, args) to the case's call log and returns the term (fid, i, args) for output i, so any wrong
wiring shows up as a different term.
"""
from __future__ import annotations

import asyncio
import zlib

from . import use_repo

use_repo()

from hypergraph import END, FunctionNode, Graph, InterruptNode  # noqa: E402
from hypergraph.nodes.gate import IfElseNode, RouteNode  # noqa: E402


class _TBase:
    pass


TYPES = {f"T{i}": type(f"T{i}", (_TBase,), {}) for i in range(8)}
TYPES.update({"int": int, "str": str})


def T(x):
    """JSON value -> run-time term (lists become tuples, recursively).  {"__mut__": kind} builds a fresh mutable object."""
    if isinstance(x, list):
        return tuple(T(i) for i in x)
    if isinstance(x, dict):
        if "__mut__" in x:
            return new_mutable(x["__mut__"])
        if "__amb__" in x:
            return Amb(x["__amb__"])
        if "__lazy__" in x:
            return Lazy(x["__lazy__"])
        return {k: T(v) for k, v in x.items()}
    return x


class Lazy:
    """A DATA value that happens to be awaitable (a lazy handle / future-like object).  A node that returns it hands the object
    itself to its consumers under either runner; nobody is entitled to resolve it."""

    def __init__(self, tag):
        self.tag = tag

    def __await__(self):
        yield from ()
        return self.tag * 1000  # resolves to another value: visible if anybody awaits it

    def __eq__(self, other):
        return isinstance(other, Lazy) and other.tag == self.tag

    def __hash__(self):
        return hash(("Lazy", self.tag))

    def __repr__(self):
        return f"Lazy({self.tag})"


class Amb:
    """A value in the manner of a numpy array: `a != b` has no truth value (raises), equality by tag still works for the
    harness.  Code that asks 'did this value change?' with `!=` must cope."""

    def __init__(self, tag):
        self.tag = tag

    def __eq__(self, other):
        return isinstance(other, Amb) and other.tag == self.tag

    def __ne__(self, other):
        raise ValueError("The truth value of an Amb is ambiguous")

    def __hash__(self):
        return hash(("Amb", self.tag))

    def __repr__(self):
        return f"Amb({self.tag!r})"

    def __deepcopy__(self, memo):
        return self

    def __reduce__(self):
        return (Amb, (self.tag,))


def new_mutable(kind):
    if kind == "list":
        return []
    if kind == "dict":
        return {"k": []}
    if kind == "tuple_list":
        return ([], "tag")
    if kind == "nested_list":
        return [[]]
    raise AssertionError(kind)


def mutate(obj, mark):
    """What a generated node does to a mutable argument it received as a signature default."""
    if isinstance(obj, list):
        (obj[0] if obj and isinstance(obj[0], list) else obj).append(mark)
    elif isinstance(obj, dict):
        obj.setdefault("k", []).append(mark)
    elif isinstance(obj, tuple) and obj and isinstance(obj[0], list):
        obj[0].append(mark)


def freeze(x):
    if isinstance(x, (list, tuple)):
        return tuple(freeze(i) for i in x)
    if isinstance(x, dict):
        return tuple(sorted((k, freeze(v)) for k, v in x.items()))
    return x


def J(x):
    """run-time term -> JSON value."""
    if isinstance(x, (tuple, list)):
        return [J(i) for i in x]
    if isinstance(x, dict):
        return {str(k): J(v) for k, v in x.items()}
    if x is None or isinstance(x, (str, int, float, bool)):
        return x
    return repr(x)


def crc(args) -> int:
    return zlib.crc32(repr(args).encode())


class Injected(Exception):
    """The exception object a failing generated node raises (pre-allocated per node, identity is checked)."""

    def __init__(self, fid, at=None, empty=False):
        if empty:
            super().__init__()  # message-less exception: str(e) == ""
        else:
            super().__init__(f"injected failure in {fid}" + (f" at {at!r}" if at is not None else ""))
        self.fid = fid
        self.at = at  # argument tuple, when the failure is allocated per invocation (map items)


class InjectedTypeError(Injected, TypeError):
    pass


class InjectedKeyError(Injected, KeyError):
    pass


class InjectedValueError(Injected, ValueError):
    pass


class InjectedRuntimeError(Injected, RuntimeError):
    pass


INJECTED_KINDS = {None: Injected, "plain": Injected, "type": InjectedTypeError, "key": InjectedKeyError, "value": InjectedValueError, "runtime": InjectedRuntimeError}


class Ctx:
    """Per-case build context: call log, injected exception objects, optional scheduler."""

    def __init__(self, sched=None, compact=False):
        self.compact = compact  # outputs are (fid, i, crc(args)) instead of nested terms (cyclic programs)
        self.log: list = []  # (fid, args) in invocation order
        self.events: list = []  # ("enter"|"exit", fid) for in-flight accounting
        self.injected: dict = {}
        self.sched = sched
        self.inflight = 0
        self.peak = 0
        self.funcs: dict = {}  # (fid, flavour) -> function (shared across nodes with the same fid)
        self.hooks: dict = {}  # fid -> callable(args) run inside the body (mutation tests etc.)
        self.raw_args: list = []  # (fid, raw argument tuple) - object identities of what the functions received
        self.keep_raw = False

    def calls(self, fid=None):
        if fid is None:
            return list(self.log)
        return [a for f, a in self.log if f == fid]

    def count(self, fid):
        return sum(1 for f, _ in self.log if f == fid)

    def reset(self):
        self.log.clear()
        self.events.clear()
        self.inflight = 0
        self.peak = 0
        self.raw_args.clear()


def _should_fail(fail, args) -> bool:
    if not fail:
        return False
    if fail == "always":
        return True
    if isinstance(fail, dict):
        if "arg_in" in fail:  # fail when any argument equals one of these terms
            bad = [T(v) for v in fail["arg_in"]]
            return any(a in bad for a in args)
        if "mod" in fail:
            return crc(args) % fail["mod"] == fail.get("eq", 0)
    return False


def make_func(ctx: Ctx, spec: dict, flavour: str):
    """exec-generate the python function for a node spec (shared per (fid, flavour))."""
    fid = spec.get("fid", spec["name"])
    key = (fid, flavour)
    if key in ctx.funcs:
        return ctx.funcs[key]
    params = list(spec.get("params", []))
    defaults = {p: T(v) for p, v in spec.get("defaults", {}).items()}
    kind = spec["k"]
    nout = len(spec.get("outs", []))
    seen_default = False
    for p in params:
        if p in defaults:
            seen_default = True
        elif seen_default:
            raise AssertionError(f"IR error: non-default param {p} after a default in {fid}")
    sig = ", ".join(p if p not in defaults else f"{p}=_d_{p}" for p in params)
    ann = spec.get("ann") or {}
    if ann:
        sig = ", ".join((f"{p}: _t_{p}" if p in ann else p) + (f" = _d_{p}" if p in defaults else "") for p in params)
    ret = " -> _t_return" if "return" in ann else ""
    args = "(" + "".join(f"{p}, " for p in params) + ")"
    is_async = (flavour == "async" and kind in ("func",) and not spec.get("force_sync")) or (kind == "interrupt" and bool(spec.get("async_handler")))
    coro_def = is_async and bool(spec.get("coro_def"))  # plain `def` that returns a coroutine (awaited by the executor)
    fail = spec.get("fail")
    table = spec.get("table")
    InjectedCls = INJECTED_KINDS[spec.get("fail_exc")]  # the node body raises an ordinary built-in exception type (TypeError, KeyError, ...)
    injected = ctx.injected.setdefault(fid, InjectedCls(fid, empty=bool(spec.get("fail_empty"))))

    expr = spec.get("expr")
    code = compile(expr, f"<expr {fid}>", "eval") if expr is not None else None

    def result_for(a):
        if code is not None:
            r = eval(code, {"__builtins__": {"len": len, "min": min, "max": max, "tuple": tuple, "list": list}}, dict(zip(params, a)))  # noqa: S307
            if kind == "route":
                return _decision(r)
            return r
        if kind == "func":
            if nout == 0:
                return None
            if "ret" in spec:  # a constant, typically falsy, result (None, 0, False, "", ()) for a single-output node
                return T(spec["ret"])
            body = crc(a) if ctx.compact else a
            if spec.get("rand"):
                # a node that draws from the process-wide `random` module (the caller seeds it before every call)
                import random

                body = (body, random.getrandbits(24))
            if nout == 1:
                return (fid, 0, body)
            return tuple((fid, i, body) for i in range(nout))
        if kind == "ifelse":
            return bool(table[crc(a) % len(table)])
        if kind == "route":
            d = table[crc(a) % len(table)]
            return _decision(d)
        if kind == "interrupt":
            if spec.get("mode", "pause") == "pause":
                return None
            ans = T(spec["answer"])
            return ans
        raise AssertionError(kind)

    mutates = spec.get("mutates") or []

    def _prep(a):
        """Mutate the arguments the spec says this node mutates, remember the raw objects, continue with a frozen copy."""
        if not mutates:
            if ctx.keep_raw:
                ctx.raw_args.append((fid, a))
            return a
        for idx, pname in enumerate(params):
            if pname in mutates:
                mutate(a[idx], ("m", fid))
        ctx.raw_args.append((fid, a))
        return freeze(a)

    def _pre(a):
        ctx.log.append((fid, a))
        hook = ctx.hooks.get(fid)
        if hook is not None:
            hook(a)
        if _should_fail(fail, a):
            exc = ctx.injected.setdefault((fid, a), InjectedCls(fid, a)) if spec.get("fail_per_args") else injected
            if spec.get("fail_chained"):
                # `raise DomainError(...) from low`: the node's exception carries an explicit cause
                raise exc from OSError(f"low-level cause in {fid}")
            raise exc

    if is_async and spec.get("agen"):
        # async generator node: the executor drains it into a list; the body only runs while it is drained
        src = f"async def {_pyname(fid)}({sig}){ret}:\n    async for _v in _impl('{fid}', {args}):\n        yield _v\n"

        async def _impl(_fid, a):
            ctx.inflight += 1
            ctx.peak = max(ctx.peak, ctx.inflight)
            ctx.events.append(("enter", fid))
            try:
                if ctx.sched is not None:
                    await ctx.sched.park(("body", fid))
                else:
                    await asyncio.sleep(0)
                a = _prep(a)
                _pre(a)
                yield result_for(a)
            finally:
                ctx.inflight -= 1
                ctx.events.append(("exit", fid))

    elif is_async:
        if coro_def:
            src = f"def {_pyname(fid)}({sig}){ret}:\n    return _impl('{fid}', {args})\n"
        else:
            src = f"async def {_pyname(fid)}({sig}){ret}:\n    return await _impl('{fid}', {args})\n"

        async def _impl(_fid, a):
            ctx.inflight += 1
            ctx.peak = max(ctx.peak, ctx.inflight)
            ctx.events.append(("enter", fid))
            try:
                if ctx.sched is not None:
                    await ctx.sched.park(("body", fid))
                else:
                    await asyncio.sleep(0)
                a = _prep(a)
                _pre(a)
                return result_for(a)
            finally:
                ctx.inflight -= 1
                ctx.events.append(("exit", fid))

    else:
        src = f"def {_pyname(fid)}({sig}){ret}:\n    return _impl('{fid}', {args})\n"
        if spec.get("gen_style") and kind == "func":
            # a (sync) generator function: its body only runs when the executor drains it
            src = f"def {_pyname(fid)}({sig}){ret}:\n    yield _impl('{fid}', {args})\n"

        def _impl(_fid, a):
            ctx.inflight += 1
            ctx.peak = max(ctx.peak, ctx.inflight)
            try:
                a = _prep(a)
                _pre(a)
                return result_for(a)
            finally:
                ctx.inflight -= 1

    consts = spec.get("consts")
    if consts:
        # a function whose code differs from its re-declared twin ONLY in the roles of two constants: the node's identity is
        # passed through a global (not a code constant), the two constants are literals in the body and end up in the arguments
        src = src.replace(f"_impl('{fid}', {args})", "_impl(_fid, (" + "".join(f"{p}, " for p in params) + "".join(f"{c!r}, " for c in consts) + "))")
    pyname = _pyname(fid)
    filename = None
    if spec.get("indent") is not None and src.startswith("def ") and not spec.get("gen_style"):
        # a function WITH retrievable source (like one written in a file) whose twin differs from it in nothing but the
        # indentation of one statement: inside the loop it runs twice, behind the loop once
        pyname = _pyname(spec["name"])
        ind = "        " if spec["indent"] == 0 else "    "
        src = (f"def {pyname}({sig}){ret}:\n    _x = ()\n    for _j in (0, 1):\n        pass\n{ind}_x = _x + (_j,)\n"
               f"    return _impl(_fid, (" + "".join(f"{p}, " for p in params) + "_x,))\n")
        _SRC_SEQ[0] += 1
        filename = f"/hgverif-generated/{pyname}_{_SRC_SEQ[0]}.py"
        import linecache

        linecache.cache[filename] = (len(src), None, src.splitlines(True), filename)
    partial_const = spec.get("partial")
    if partial_const is not None and src.startswith("def ") and not spec.get("gen_style") and filename is None:
        # the node function is a functools.partial over a base function: its state (the pre-bound first argument) is part of what
        # it computes, while its code is the base function's
        src = f"def {pyname}(_pk, {sig}){ret}:\n    return _impl(_fid, (" + "".join(f"{p}, " for p in params) + "('pk', _pk),))\n"
    ns = {"_impl": _impl, "_fid": fid}
    for p, v in defaults.items():
        ns[f"_d_{p}"] = v
    for p, t in ann.items():
        ns[f"_t_{p}"] = TYPES[t] if isinstance(t, str) else t
    if filename is not None:
        exec(compile(src, filename, "exec"), ns)
    else:
        exec(src, ns)
    fn = ns[pyname]
    if partial_const is not None and src.startswith(f"def {pyname}(_pk, "):
        import functools

        fn = functools.partial(fn, partial_const)
    ctx.funcs[key] = fn
    return fn


_SRC_SEQ = [0]


def _pyname(fid: str) -> str:
    return "f_" + "".join(c if c.isalnum() else "_" for c in fid)


def _decision(d):
    if d == "END":
        return END
    if isinstance(d, list):
        return [END if x == "END" else x for x in d]
    return d


def _tgt(t):
    return END if t == "END" else t


def _tup(names):
    return tuple(names) if names else None


def make_node(ctx: Ctx, spec: dict, flavour: str):
    kind = spec["k"]
    if kind == "graph":
        return make_graph_node(ctx, spec, flavour)
    fn = make_func(ctx, spec, flavour)
    common = {}
    if spec.get("emit"):
        common["emit"] = tuple(spec["emit"])
    if spec.get("wait_for"):
        common["wait_for"] = tuple(spec["wait_for"])
    if spec.get("rename_inputs"):
        common["rename_inputs"] = dict(spec["rename_inputs"])
    if spec.get("cache"):
        common["cache"] = True
    if spec.get("hide") and kind == "func":
        common["hide"] = True  # documented option: the node is left out of diagrams
    if kind == "func" or kind == "interrupt":
        outs = spec.get("outs", [])
        on = None if not outs else (outs[0] if len(outs) == 1 else tuple(outs))
        cls = FunctionNode if kind == "func" else InterruptNode
        node = cls(fn, name=spec["name"], output_name=on, **common)
    elif kind == "ifelse" and _via_decorator(spec):
        from hypergraph import ifelse

        node = ifelse(when_true=_tgt(spec["t"]), when_false=_tgt(spec["f"]), name=spec["name"], default_open=spec.get("default_open", True), **common)(fn)
    elif kind == "ifelse":
        node = IfElseNode(fn, _tgt(spec["t"]), _tgt(spec["f"]), name=spec["name"], default_open=spec.get("default_open", True), **common)
    elif kind == "route" and _via_decorator(spec):
        from hypergraph import route

        node = route(
            targets=[_tgt(t) for t in spec["targets"]],
            fallback=_tgt(spec["fallback"]) if spec.get("fallback") is not None else None,
            multi_target=spec.get("multi", False),
            name=spec["name"],
            default_open=spec.get("default_open", True),
            **common,
        )(fn)
    elif kind == "route":
        node = RouteNode(
            fn,
            [_tgt(t) for t in spec["targets"]],
            fallback=_tgt(spec["fallback"]) if spec.get("fallback") is not None else None,
            multi_target=spec.get("multi", False),
            name=spec["name"],
            default_open=spec.get("default_open", True),
            **common,
        )
    else:
        raise AssertionError(kind)
    return apply_renames(node, spec)


def apply_renames(node, spec):
    """Replay a rename history: list of {"kind": "inputs"|"outputs"|"name", "map": {...}|"name"}."""
    for step in spec.get("renames", []):
        if step["kind"] == "inputs":
            node = node.with_inputs(dict(step["map"]))
        elif step["kind"] == "outputs":
            node = node.with_outputs(dict(step["map"]))
        elif step["kind"] == "name":
            node = node.with_name(step["name"])
        elif step["kind"] == "warm":
            warm(node)
    return node


def _via_decorator(spec) -> bool:
    """Gates are declared through the documented decorators (@ifelse / @route) or through the node classes; both forms must
    mean the same.  Decided by the IR (explicit flag, else a fixed function of the node name), never by chance."""
    if "decorator" in spec:
        return bool(spec["decorator"])
    return crc(spec["name"]) % 2 == 0


def warm(node):
    """Touch what a user inspecting a node would read, so every lazily cached attribute is populated before the next
    derivation (a clone must not inherit a stale cache)."""
    for attr in ("defaults", "parameter_annotations", "definition_hash", "inputs", "outputs", "data_outputs", "wait_for"):
        try:
            getattr(node, attr, None)
        except Exception:  # noqa: BLE001 - inspection only
            pass
    for p in tuple(node.inputs):
        node.has_default_for(p)
        node.get_input_type(p)
    try:
        getattr(node, "nx_attrs", None)
        Graph([node])  # the node has been part of a graph before it is derived from
    except Exception:  # noqa: BLE001 - a node that cannot stand alone (gate without its targets) is simply not used
        pass


def explicit_edges(specs, gate_edges=False):
    """The topology that name inference would produce, declared by hand: one (producer, consumer, [names]) edge per pair and,
    optionally, the (gate, target) pairs as well (discouraged in the docs because of how they are DRAWN; routing is unaffected)."""
    def outs_of(x):
        return list(x.get("outs", [])) if x["k"] != "graph" else list(x.get("flat_outputs", []))

    def ins_of(x):
        return list(x.get("params", [])) if x["k"] != "graph" else list(x.get("flat_inputs", []))

    edges = {}
    for c in specs:
        for p in ins_of(c):
            for m in specs:
                if p in outs_of(m):
                    edges.setdefault((m["name"], c["name"]), []).append(p)
    out = [(a, b, names) for (a, b), names in edges.items()]
    if gate_edges:
        names = {x["name"] for x in specs}
        for g in specs:
            if g["k"] in ("ifelse", "route"):
                ts = [g["t"], g["f"]] if g["k"] == "ifelse" else list(g["targets"])
                for t in dict.fromkeys(ts):
                    if t in names and (g["name"], t) not in edges:
                        out.append((g["name"], t))
    return out


def make_graph(ctx: Ctx, gspec: dict, flavour: str = "sync"):
    nodes = [make_node(ctx, n, flavour) for n in gspec["nodes"]]
    kw = {}
    if gspec.get("name") is not None:
        kw["name"] = gspec["name"]
    if gspec.get("strict"):
        kw["strict_types"] = True
    if gspec.get("edges") is not None:
        kw["edges"] = [tuple(e[:2]) + ((list(e[2]),) if len(e) > 2 else ()) for e in gspec["edges"]]
    elif gspec.get("explicit"):
        kw["edges"] = explicit_edges(gspec["nodes"], gate_edges=gspec["explicit"] == "data+gate")
    g = Graph(nodes, **kw)
    if not gspec.get("no_decoy"):
        # a SIBLING derivation from the same base object, made first and then dropped: it binds every plain input the program
        # itself leaves unbound.  Derived graphs do not influence one another, so nothing below may notice it.
        try:
            free = [p for p in g.inputs.all if p not in (gspec.get("bind") or {}) and p not in set(g.outputs)]
            if free:
                g.bind(**{p: ("decoy", p) for p in free})
        except Exception:  # noqa: BLE001 - a rejected decoy binding changes nothing either
            pass
    if gspec.get("bind"):
        g = g.bind(**{k: T(v) for k, v in gspec["bind"].items()})
    if gspec.get("select") is not None:
        g = g.select(*gspec["select"])
    if gspec.get("entry") and gspec.get("entry_chain"):
        for e in gspec["entry"]:
            g = g.with_entrypoint(e)  # entry points accumulate over chained calls
    elif gspec.get("entry"):
        g = g.with_entrypoint(*gspec["entry"])
    return g


def make_graph_node(ctx: Ctx, spec: dict, flavour: str):
    if spec.get("share"):
        # several wrappers around the SAME Graph object (g.as_node(name="a"), g.as_node(name="b"))
        shared = ctx.__dict__.setdefault("shared_graphs", {})
        key = (spec["share"], flavour)
        if key not in shared:
            shared[key] = make_graph(ctx, spec["graph"], flavour)
        inner = shared[key]
    else:
        inner = make_graph(ctx, spec["graph"], flavour)
    gn = inner.as_node(name=spec["name"]) if spec.get("name") else inner.as_node()
    m = spec.get("map")
    if m and m.get("warm"):
        # the node is first configured with ANOTHER map_over, executed once in a graph of its own, and only then re-configured:
        # nothing remembered from the first configuration may survive
        import copy as _copy

        from hypergraph import SyncRunner

        gn = _map_over(gn, {"params": m["warm"]["params"], "mode": "zip", "error_handling": "continue"})
        saved = list(ctx.log)
        try:
            SyncRunner().run(Graph([gn]), _copy.deepcopy(m["warm"]["values"]), error_handling="continue")
        except Exception:  # noqa: BLE001 - the warm-up run's own outcome is irrelevant
            pass
        ctx.log[:] = saved
    if m and m.get("before_renames"):
        gn = _map_over(gn, m)
    gn = apply_renames(gn, spec)
    if m and not m.get("before_renames"):
        gn = _map_over(gn, m)
    return gn


def _map_over(gn, m):
    kw = {"mode": m.get("mode", "zip"), "error_handling": m.get("error_handling", "raise")}
    if "clone" in m:
        kw["clone"] = m["clone"]
    return gn.map_over(*m["params"], **kw)
