"""Harness-owned scheduler for the async runner (DESIGN.md 3.4).

Every node parks at its NodeStartEvent (through an AsyncEventProcessor) and every generated async node body parks
at its first statement.  Parked tasks wait on futures that only the driver resolves.  The driver yields until the
event loop has nothing runnable (quiescence), records the parked set, and releases exactly one parked task chosen
by the schedule (a list of indices).  Quiescence with nothing parked and the run unfinished is a deadlock.
"""
from __future__ import annotations

import asyncio
import warnings

from . import use_repo

use_repo()

from hypergraph import AsyncRunner  # noqa: E402
from hypergraph.events import AsyncEventProcessor  # noqa: E402
from hypergraph.events.types import NodeStartEvent, RunStartEvent  # noqa: E402

from .core import HarnessError  # noqa: E402
from .observe import Deadlock, Outcome, _outcome  # noqa: E402


class Sched:
    def __init__(self, choices=(), adversarial=False, park_starts=True):
        self.waiters: list = []  # (label, future, seq)
        self.choices = list(choices)
        self.pos = 0
        self.adversarial = adversarial
        self.park_starts = park_starts
        self.trace: list = []  # (sorted parked labels, chosen label)
        self.branching: list = []
        self.seq = 0
        self.max_inflight_seen = 0
        self.on_quiescent = None  # callback(sched) at every quiescent point

    async def park(self, label):
        fut = asyncio.get_running_loop().create_future()
        self.seq += 1
        self.waiters.append((label, fut, self.seq))
        await fut

    def _pick(self, cands):
        n = len(cands)
        self.branching.append(n)
        if self.pos < len(self.choices):
            i = self.choices[self.pos] % n
        else:
            i = 0
        self.pos += 1
        return i

    async def drive(self, main_task):
        loop = asyncio.get_running_loop()
        spins = 0
        while not main_task.done():
            await asyncio.sleep(0)
            spins += 1
            if spins > 2_000_000:
                raise HarnessError("scheduler spun without reaching quiescence")
            if len(loop._ready) > 0 or loop._scheduled:
                continue
            if main_task.done():
                break
            self.waiters = [w for w in self.waiters if not w[1].done()]  # parked tasks that were cancelled meanwhile
            if self.on_quiescent is not None:
                self.on_quiescent(self)
            if not self.waiters:
                main_task.cancel()
                try:
                    await main_task
                except BaseException:  # noqa: BLE001
                    pass
                raise Deadlock("quiescent: nothing runnable, nothing parked, run not finished")
            order = sorted(range(len(self.waiters)), key=lambda i: (repr(self.waiters[i][0]), self.waiters[i][2]))
            cands = order
            if self.adversarial:
                starts = [i for i in order if self.waiters[i][0][0] == "start"]
                if starts:
                    cands = starts
            k = self._pick(cands)
            idx = cands[k]
            label, fut, _ = self.waiters.pop(idx)
            self.trace.append((tuple(sorted(repr(w[0]) for w in self.waiters) + [repr(label)]), label))
            fut.set_result(None)
        return await main_task


class Hold(AsyncEventProcessor):
    """Parks every node at its start event; also records the event stream."""

    def __init__(self, sched: Sched):
        self.sched = sched
        self.events: list = []
        self.shutdowns = 0
        self.graph_of_run: dict = {}

    async def on_event_async(self, event):
        self.events.append(event)
        if isinstance(event, RunStartEvent):
            self.graph_of_run[event.run_id] = event.graph_name
        if isinstance(event, NodeStartEvent) and self.sched.park_starts:
            await self.sched.park(("start", event.node_name, event.graph_name or ""))

    async def shutdown_async(self):
        self.shutdowns += 1


def run_scheduled(ctx, graph, values, choices=(), *, adversarial=False, runner=None, processors=(), park_starts=True,
                  method="run", on_quiescent=None, pre=None, pre_inside=None, **kw):
    """Run graph on AsyncRunner under the harness scheduler.  Returns (Outcome, Sched).  Deadlock -> Outcome('deadlock')."""
    sched = Sched(choices, adversarial=adversarial, park_starts=park_starts)
    sched.on_quiescent = on_quiescent
    ctx.sched = sched
    hold = Hold(sched)
    sched.hold = hold
    runner = runner or AsyncRunner()

    async def go():
        fn = getattr(runner, method)
        if pre is not None:
            await pre(runner)  # earlier calls awaited from the SAME task (context variables are inherited by `main`)
        if pre_inside is not None:
            # an earlier call made from the same task and under the same scheduler (its node bodies park like everybody's)
            async def both():
                await pre_inside(runner, hold)
                return await fn(graph, dict(values), event_processors=[*processors, hold], **kw)

            main = asyncio.ensure_future(both())
        else:
            main = asyncio.ensure_future(fn(graph, dict(values), event_processors=[*processors, hold], **kw))
        return await sched.drive(main)

    try:
        with warnings.catch_warnings():
            warnings.simplefilter("ignore")
            res = asyncio.run(go())
    except Deadlock as d:
        return Outcome("deadlock", None, d), sched
    except HarnessError:
        raise
    except (Exception, asyncio.CancelledError) as e:  # noqa: BLE001
        return Outcome("raised", None, e), sched
    finally:
        ctx.sched = None
    if method == "map":
        return Outcome("map", None, None, None, res), sched
    return _outcome(res), sched


def enumerate_schedules(run_once, cap):
    """CHESS-style DFS over choice sequences.  run_once(choices) -> (result, branching list).
    Yields (choices, result); stops after `cap` executions.  Returns via StopIteration whether it was exhaustive."""
    pending = [[]]
    count = 0
    while pending:
        if count >= cap:
            return False
        ch = pending.pop()
        res, br = run_once(ch)
        count += 1
        yield ch, res
        full = ch + [0] * (len(br) - len(ch))
        for i in range(len(br) - 1, len(ch) - 1, -1):
            for j in range(br[i] - 1, 0, -1):
                pending.append(full[:i] + [j])
    return True


def run_many_scheduled(items, choices=(), *, adversarial=False):
    """asyncio.gather of several runs under ONE harness scheduler.
    items: list of dicts {ctx, graph, values, runner (optional), kw (optional)}.  Returns (list of Outcome, Sched)."""
    sched = Sched(choices, adversarial=adversarial)
    holds = []
    for it in items:
        it["ctx"].sched = sched
        h = Hold(sched)
        holds.append(h)
    sched.holds = holds

    async def one(it, hold):
        runner = it.get("runner") or AsyncRunner()
        try:
            res = await runner.run(it["graph"], dict(it["values"]), event_processors=[hold], **(it.get("kw") or {}))
            return _outcome(res)
        except (Exception, asyncio.CancelledError) as e:  # noqa: BLE001
            return Outcome("raised", None, e)

    async def go():
        main = asyncio.ensure_future(asyncio.gather(*[one(it, h) for it, h in zip(items, holds)]))
        return await sched.drive(main)

    try:
        with warnings.catch_warnings():
            warnings.simplefilter("ignore")
            res = asyncio.run(go())
    except Deadlock as d:
        return [Outcome("deadlock", None, d) for _ in items], sched
    finally:
        for it in items:
            it["ctx"].sched = None
    return list(res), sched
