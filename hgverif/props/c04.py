"""C04 - loops run exactly as many iterations as the gate dictates and always terminate.  DESIGN.md section 4/C04."""
from __future__ import annotations

from hypothesis import strategies as st

from ..build import Ctx, J, make_graph
from ..core import Violation
from ..gen import prob
from ..loops import eval_loop, loop_graph_spec, loop_values
from ..observe import run_async, run_sync
from ..sched import run_scheduled

ID = "C04"
LEVEL = "exploration"
BUDGET = {"quick": 1200, "thorough": 24000}
SHARDS = {"quick": 16, "thorough": 16}
RULE = (
    "Hypothesis-generated structured loops: body chain of 1-4 nodes carrying i; forms while (gate reads the carried variable), "
    "do-while (gate reads a flag produced by the last body node) and signal-synchronised (gate waits for the end-of-iteration "
    "emit); if/else or route gate; exit through END or an exit node; optional ungated self-accumulator; loop-invariant inputs; "
    "optional nesting in a graph node whose limit is computed outside; entry at any body node (while form); 0..N iterations "
    "(N=8 quick, 40 thorough); node-list permutation; both runners (async also under a drawn schedule). Oracle: a literal "
    "Python while / do-while: final values and body-node invocation counts equal; S = least max_iterations that completes "
    "(binary search): every m >= S gives the identical result, every m < S gives InfiniteLoopError (raised or FAILED) with "
    "partial values inside the reference trajectories, body counts <= reference, observed supersteps <= m. Non-trivial = "
    ">=2 iterations, or a boundary count (0 or 1), or a capped run."
)
ASSUMPTIONS = [
    "gate evaluation counts and the exit node's invocation count are not compared (default-open exit nodes legitimately start early)",
    "loop bodies are 'proper' chains in the sense of docs/03-patterns/03-agentic-loops.md (DESIGN.md 3.2 G3)",
]


@st.composite
def _case(draw, tier, force_pre_entry=False):
    N = 8 if tier == "quick" else 40
    form = draw(st.sampled_from(["while", "dowhile", "signal"] if force_pre_entry else ["while", "while", "dowhile", "signal", "selfsignal", "waitlast", "chat"]))
    step = draw(st.sampled_from([1, 1, 2, 3]))
    start = draw(st.integers(0, 5))
    iters = draw(st.integers(0, N))
    limit = start + iters * step - draw(st.integers(0, step - 1)) if iters > 0 else start - draw(st.integers(0, 2))
    L = {
        "k": draw(st.integers(1, 4)),
        "form": form,
        "gate": draw(st.sampled_from(["ifelse", "route"])),
        "exit": draw(st.sampled_from(["END", "node"])),
        "dopen": draw(st.booleans()),
        "limit": limit,
        "step": step,
        "start": start,
        "limit_input": draw(st.booleans()),
        "step_input": draw(st.booleans()),
        "acc": prob(draw, 0.3),
        "nullable": prob(draw, 0.25),   # a second carried value that is None in some iterations (None is a value, not 'not produced yet')
        "two_signals": draw(st.booleans()),  # signal form: the gate waits for an early signal AND the end-of-iteration signal
        "nested": prob(draw, 0.0 if force_pre_entry else 0.2),
        "limit_off": draw(st.integers(0, 3)),
        "entry": 0,
        "exit_ext": prob(draw, 0.35),  # the exit node takes an external input only (reached through the gate's control edge alone)
        "stop_none": draw(st.booleans()),  # a route gate that ends the loop by deciding None rather than END
        # the gate is cacheable and the loop runs three times on one runner that carries a cache (decisions are restored from it)
        "cache_gate": prob(draw, 0.3),
        "b0_waits": draw(st.booleans()), "const_emitter": draw(st.booleans()), "gate_free_running": draw(st.booleans()),  # long self-signal form: see loops.py
    }
    if form in ("selfsignal", "chat") or L["acc"]:
        L["nullable"] = False
    if form == "selfsignal":
        L.update({"k": draw(st.sampled_from([2, 2, 3, 4])), "acc": False, "nested": False, "limit_input": L["limit_input"]})
    if form == "waitlast":
        L.update({"k": draw(st.integers(3, 4)), "nested": False})
    if form == "chat":
        L.update({"k": 1, "acc": False, "nested": False, "step_input": False, "limit": 2 * draw(st.integers(0, N // 2)), "start": 0, "step": 1})
    if L["nested"]:
        # a nested loop whose cycle has >= 2 nodes cannot be entered at all today (open finding F11, reported by C08):
        # the generator avoids that shape by construction so the budget is spent behind the finding
        L["k"] = 1
    if form == "while" and not L["acc"] and not L["nested"] and L["k"] >= 2 and not force_pre_entry and prob(draw, 0.3):
        L["entry"] = draw(st.integers(1, L["k"] - 1))
    if L["entry"] != 0:
        L["nullable"] = False  # the second carried value is seeded together with `i`; a mid-body entry supplies t_k instead
    if form in ("while", "dowhile", "signal") and L["limit_input"] and not L["nested"] and L["entry"] == 0 and prob(draw, 0.35):
        L["pre_entry"] = True
    if force_pre_entry and form in ("while", "dowhile", "signal") and not L["nested"] and L["entry"] == 0:
        L["pre_entry"] = L["limit_input"] = True
    if L.get("pre_entry") and prob(draw, 0.6):
        # several configured entry points on ONE cycle (one call or chained, any order): each is downstream of the others, so
        # the scope is the whole cycle plus what follows it, exactly as with b0 alone
        L["entry_set"] = draw(st.lists(st.sampled_from([f"b{j}" for j in range(L["k"])]), min_size=1, max_size=3, unique=True))
        L["entry_chain"] = draw(st.booleans())
    return {
        "loop": L,
        "order": draw(st.lists(st.integers(0, 9), min_size=10, max_size=10)),
        "sched": draw(st.lists(st.integers(0, 5), max_size=30)),
        "caps": draw(st.lists(st.integers(1, 6), min_size=1, max_size=3)),
        # the same loop with its topology DECLARED by hand (every inferred data edge, optionally the gate -> target pairs)
        "explicit": draw(st.sampled_from([None, None, "data", "data+gate"])),
    }


def strategy(tier):
    return _case(tier)


def _run_kw(L, g):
    kw = {}
    inner = g
    eps = g.inputs.entrypoints
    if L.get("entry", 0) > 0:
        kw["entrypoint"] = f"b{L['entry']}"
    elif len(eps) > 1 and not L.get("nested") and "b0" in eps:
        kw["entrypoint"] = "b0"
    return kw


def _compare(tag, L, out, ctx, env, counts):
    if out.status != "completed":
        raise Violation("c04.not_completed", f"[{tag}] {out.brief()} loop={J(L)}", form=L["form"])
    if out.values != env:
        diff = {k: (J(out.values.get(k, "<absent>")), J(env.get(k, "<absent>"))) for k in set(out.values) | set(env) if out.values.get(k, "<absent>") != env.get(k, "<absent>")}
        raise Violation("c04.values", f"[{tag}] (got, expected) {diff} loop={J(L)}", form=L["form"])
    for name, want in counts.items():
        got = ctx.count(name)
        if got != want:
            raise Violation("c04.body_count", f"[{tag}] node {name} ran {got} times, sequential loop runs it {want} times; loop={J(L)}", form=L["form"], more=got > want)


def check_case(case, ev):
    L = case["loop"]
    gspec = loop_graph_spec(L, case["order"])
    env, counts, traj, iters = eval_loop(L)
    vals = loop_values(L)
    labels = {f"form:{L['form']}", f"gate:{L['gate']}", f"exit:{L['exit']}", f"iters:{min(iters, 3)}{'+' if iters >= 3 else ''}"}
    if L.get("pre_entry"):
        counts["mk_limit"] = 0  # excluded by with_entrypoint: must never run
    for f in ("acc", "nested", "limit_input", "step_input", "pre_entry"):
        if L.get(f):
            labels.add(f)
    if L.get("entry"):
        labels.add("entry>0")
    if len(L.get("entry_set") or []) > 1:
        labels.add("several_entry_points_on_one_cycle")

    ctx = Ctx()
    g = make_graph(ctx, gspec, "sync")
    kw = _run_kw(L, g)
    base = run_sync(g, vals, **kw)
    _compare("sync", L, base, ctx, env, counts)

    ctx2 = Ctx()
    g2 = make_graph(ctx2, gspec, "sync")
    _compare("async", L, run_async(g2, vals, **kw), ctx2, env, counts)

    if L.get("cache_gate") and not L.get("nested"):
        from hypergraph import AsyncRunner, SyncRunner
        from hypergraph.cache import InMemoryCache

        cspec = {**gspec, "nodes": [({**n, "cache": True} if n["k"] in ("ifelse", "route") else n) for n in gspec["nodes"]]}
        for rk in ("sync", "async"):
            ctxc = Ctx()
            gc = make_graph(ctxc, cspec, "sync")
            runner_c = SyncRunner(cache=InMemoryCache()) if rk == "sync" else AsyncRunner(cache=InMemoryCache())
            for rep in range(3):
                ctxc.reset()
                oc = (run_sync if rk == "sync" else run_async)(gc, vals, runner=runner_c, **kw)
                _compare(f"{rk}, cacheable gate, run {rep} on one cache", L, oc, ctxc, env, counts)
        labels.add("cacheable_gate_three_runs")

    outs_all = [o for n in gspec["nodes"] for o in n.get("outs", [])]
    if case.get("explicit") and not L.get("nested") and len(outs_all) == len(set(outs_all)):
        ctxe = Ctx()
        try:
            ge = make_graph(ctxe, {**gspec, "explicit": case["explicit"]}, "sync")
        except Exception as e:  # noqa: BLE001 - declared topologies are validated by their own rules
            ev.count("explicit_edges_rejected:" + type(e).__name__)
            ge = None
        if ge is not None:
            kwe = _run_kw(L, ge)
            oe = run_sync(ge, vals, **kwe)
            if oe.status == "raised" and type(oe.error).__name__ in ("MissingInputError", "ValueError") and "iterations" not in str(oe.error):
                ev.count("explicit_edges_other_input_contract")
            else:
                _compare(f"sync, edges={case['explicit']}", L, oe, ctxe, env, counts)
                labels.add("explicit_edges:" + case["explicit"])

    ctx3 = Ctx()
    g3 = make_graph(ctx3, gspec, "async")
    out3, sched3 = run_scheduled(ctx3, g3, vals, case["sched"], **kw)
    if out3.status == "deadlock":
        raise Violation("c04.deadlock", f"[async scheduled] {out3.error} loop={J(L)}", form=L["form"])
    _compare("async scheduled", L, out3, ctx3, env, counts)

    # ---- termination clause: S = least max_iterations that completes
    def completes(m):
        c = Ctx()
        gg = make_graph(c, gspec, "sync")
        o = run_sync(gg, vals, max_iterations=m, error_handling="continue", **kw)
        return o, c

    hi = 6 * (L["k"] + 4) * (iters + 2) + 10
    o_hi, _ = completes(hi)
    if o_hi.status != "completed":
        raise Violation("c04.no_termination", f"max_iterations={hi} did not complete: {o_hi.brief()} loop={J(L)}")
    lo = 1
    while lo < hi:
        mid = (lo + hi) // 2
        o, _ = completes(mid)
        if o.status == "completed":
            hi = mid
        else:
            lo = mid + 1
    S = lo
    from .c02 import _steps_from_events

    observed = len(_steps_from_events(sched3.hold.events))
    if observed != S:
        raise Violation("c04.step_count_mismatch", f"least completing max_iterations (sync) is {S} but the async run executed {observed} supersteps; loop={J(L)}")
    ev.extra["max_supersteps"] = max(ev.extra.get("max_supersteps", 0), S)
    capped = False
    for d in (0, 1, 2):
        o, c = completes(S + d)
        if o.status != "completed" or o.values != env:
            raise Violation("c04.cap_above", f"max_iterations={S + d} (S={S}) gave {o.brief()} expected {J(env)}; loop={J(L)}")
    from hypergraph import InfiniteLoopError

    for m in sorted({S - 1, S - 2, 1, *[S - x for x in case["caps"]]}):
        if m < 1 or m >= S:
            continue
        capped = True
        o, c = completes(m)
        if o.status != "failed" or not isinstance(o.error, InfiniteLoopError):
            raise Violation("c04.cap_below", f"max_iterations={m} < S={S} gave {o.brief()} instead of FAILED/InfiniteLoopError; loop={J(L)}")
        for k2, v in o.values.items():
            if k2 in traj and v not in traj[k2]:
                raise Violation("c04.partial_not_in_trajectory", f"max_iterations={m}: partial {k2}={J(v)} never occurs in the sequential loop ({J(traj[k2][:6])}...); loop={J(L)}")
        for name, want in counts.items():
            if c.count(name) > want:
                raise Violation("c04.cap_overrun", f"max_iterations={m}: {name} ran {c.count(name)} > {want} times; loop={J(L)}")
        cr = Ctx()
        gr = make_graph(cr, gspec, "sync")
        orr = run_sync(gr, vals, max_iterations=m, **kw)
        if orr.status != "raised" or not isinstance(orr.error, InfiniteLoopError):
            raise Violation("c04.cap_raise_mode", f"max_iterations={m} raise mode gave {orr.brief()}; loop={J(L)}")
        # never more than m supersteps (observed on the async runner)
        ca = Ctx()
        ga = make_graph(ca, gspec, "async")
        oa, sa = run_scheduled(ca, ga, vals, case["sched"], max_iterations=m, error_handling="continue", **kw)
        from .c02 import _steps_from_events

        steps = _steps_from_events(sa.hold.events)
        if len(steps) > m:
            raise Violation("c04.too_many_steps", f"max_iterations={m} but {len(steps)} supersteps observed; loop={J(L)}")
        if oa.status != "failed" or not isinstance(oa.error, InfiniteLoopError):
            raise Violation("c04.cap_below_async", f"async max_iterations={m} < S={S} gave {oa.brief()}; loop={J(L)}")
        # "... together with the values computed so far": after the same m supersteps both runners have computed the same values
        if oa.values != o.values:
            raise Violation("c04.cap_partial_values_differ", f"max_iterations={m}: FAILED/InfiniteLoopError carries {J(oa.values)} on the async runner and {J(o.values)} on the sync runner; loop={J(L)}",
                            empty=not oa.values)
    if capped:
        labels.add("capped_run")
    nontrivial = iters >= 2 or iters in (0, 1) and True or capped
    ev.case(case, nontrivial, sorted(labels))
