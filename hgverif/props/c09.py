"""C09 - caching is transparent, even with eviction, corruption or a torn write.  DESIGN.md section 4/C09.  (fault enumeration)"""
from __future__ import annotations

import hashlib
import hmac as hmaclib
import os
import pickle
import shutil
import tempfile

from hypothesis import strategies as st

from .. import gen, ref
from ..build import Ctx, J, T, make_graph
from ..core import HarnessError, Violation
from ..gen import prob
from ..observe import AsyncRecorder, Recorder, run_async, run_sync

ID = "C09"
LEVEL = "fault_enumeration"
BUDGET = {"quick": 960, "thorough": 16000}
SHARDS = {"quick": 16, "thorough": 16}
RULE = (
    "Hypothesis-generated programs (2-5 function nodes + 0-2 gates) with a drawn cacheable subset, deliberately including nodes "
    "that share one function under different output names / swapped input renames / identical signature, and gates sharing one "
    "routing function with different targets, plus cached nodes that emit; histories of 2-6 runs over a pool of 3 input variants, "
    "alternating SyncRunner / AsyncRunner on one shared backend: InMemoryCache(None|1|2|3|5) or DiskCache on a fresh directory. "
    "Oracle per run: status, values, executed-node multiset and routing decisions equal the uncached twin run; every cache "
    "get is attributed (through the event stream) to a node execution whose arguments are known from the twin, and an abstract "
    "LRU model over (function, output names, targets, positional arguments) must predict every hit and miss, a hit must not invoke "
    "the function, and one key string must never stand for two abstract keys. Fault enumeration (DiskCache): after a populating "
    "run, EVERY stored entry x {payload bit flip, truncation, replaced by str/int/float/dict, hmac deleted, payload deleted, hmac "
    "altered, truncated, emptied (also with a forged payload), extended, hmac replaced by bytes, new payload with old hmac} and EVERY dropped backend write k (crash between the two writes): "
    "a re-run through a new DiskCache raises nothing, equals the uncached run, re-invokes the affected function, and a "
    "pickle.loads spy saw only bytes whose HMAC verifies under the directory key. Non-trivial = a history with >=1 hit and >=1 "
    "eviction, or a corrupted entry that was subsequently requested."
)
ASSUMPTIONS = [
    "pickle.loads is observed by replacing the `pickle` name inside hypergraph.cache with a recording proxy (skipped and recorded if absent)",
    "torn writes are simulated by dropping the k-th write on the diskcache.Cache object held by DiskCache",
    "cross-process races on one cache directory are out of scope",
]

CORRUPTIONS = ["bitflip", "truncate", "as_str", "as_int", "as_float", "as_dict", "hmac_deleted", "payload_deleted", "hmac_altered", "hmac_bytes", "torn_overwrite",
               "hmac_truncated", "hmac_empty", "hmac_empty_forged", "hmac_extended"]


@st.composite
def _program(draw):
    base = draw(gen.g1_nodes(2, 5, default_on_edge=0.0))
    for n in base:
        n["cache"] = prob(draw, 0.6)
        n["defaults"] = {}
    nodes = [dict(n) for n in base]
    labels = set()
    withouts = [n for n in base if n["outs"]]
    # nodes sharing a function
    if withouts and prob(draw, 0.6):
        a = draw(st.sampled_from(withouts))
        style = draw(st.sampled_from(["other_outputs", "same_signature", "swapped_renames"]))
        b = {**a, "name": a["name"] + "s", "fid": a["name"], "cache": True}
        a["cache"] = True
        for n in nodes:
            if n["name"] == a["name"]:
                n["cache"] = True
        if style == "other_outputs" or len(a["params"]) < 2:
            b["outs"] = [o + "s" for o in a["outs"]]
            labels.add("shared_fn_other_outputs")
        elif style == "same_signature":
            b["outs"] = [o + "s" for o in a["outs"]]
            labels.add("shared_fn_other_outputs")
        else:
            # same function, first two inputs swapped through rename_inputs; outputs renamed apart
            p, q = a["params"][0], a["params"][1]
            b["rename_inputs"] = {p: q, q: p}
            b["outs"] = [o + "s" for o in a["outs"]]
            labels.add("shared_fn_swapped_renames")
        nodes.append(b)
    # emit on a cached node
    if prob(draw, 0.3):
        i = draw(st.integers(0, len(base) - 1))
        nodes[i] = {**nodes[i], "emit": ["sig0"], "cache": True}
        j = draw(st.integers(0, len(base) - 1))
        if j != i and "sig0" not in nodes[j].get("emit", []):
            nodes[j] = {**nodes[j], "wait_for": ["sig0"]}
        labels.add("cached_emit")
    # functions whose code carries two literal constants (a twin with the constants in swapped roles is another definition)
    for i, n in enumerate(nodes):
        if n["k"] == "func" and n.get("cache") and "fid" not in n and not any(m.get("fid") == n["name"] for m in nodes) and prob(draw, 0.3):
            nodes[i] = {**n, "consts": [n["name"] + "_p", n["name"] + "_q"]}
            labels.add("literal_constants")
        elif n["k"] == "func" and n.get("cache") and "fid" not in n and not any(m.get("fid") == n["name"] for m in nodes) and not n.get("emit") and prob(draw, 0.2):
            # the node function is a functools.partial (no source, no code object of its own); a twin pre-binds another value
            nodes[i] = {**n, "partial": 1}
            labels.add("partial_as_node_function")
        elif n["k"] == "func" and n.get("cache") and "fid" not in n and not any(m.get("fid") == n["name"] for m in nodes) and not n.get("emit") and prob(draw, 0.3):
            # a function with retrievable source; its twin differs in the INDENTATION of one statement only
            nodes[i] = {**n, "indent": 0}
            labels.add("source_with_block_structure")
    # gates
    funcs = [n["name"] for n in base]
    names = sorted({p for n in base for p in n["params"]} | {o for n in base for o in n["outs"]})
    ng = draw(st.integers(0, 2))
    gates = []
    for gi in range(ng):
        params = list(dict.fromkeys(draw(st.lists(st.sampled_from(names), max_size=2)))) if names else []
        t = draw(st.sampled_from(funcs))
        f = draw(st.sampled_from([x for x in funcs + ["END"] if x != t]))
        g = {"k": "ifelse", "name": f"g{gi}", "params": params, "defaults": {}, "t": t, "f": f, "table": draw(st.lists(st.booleans(), min_size=1, max_size=3)),
             "default_open": draw(st.booleans()), "cache": prob(draw, 0.7)}
        if prob(draw, 0.35):
            # a multi-way gate: single decisions, None, END, or (multi_target) LISTS of targets - all of which a cache hit must restore
            targets = list(dict.fromkeys([t] + ([f] if f != "END" else []) + draw(st.lists(st.sampled_from(funcs), max_size=1)))) + (["END"] if draw(st.booleans()) else [])
            multi = draw(st.booleans())
            if multi:
                table = [[x for x in targets if x != "END" and prob(draw, 0.6)] for _ in range(draw(st.integers(1, 3)))]
            else:
                table = draw(st.lists(st.sampled_from(targets + [None]), min_size=1, max_size=3))
            g = {"k": "route", "name": f"g{gi}", "params": params, "defaults": {}, "targets": targets, "multi": multi, "fallback": None, "table": table,
                 "default_open": g["default_open"], "cache": True}
            labels.add("cached_route_gate" + ("_multi" if multi else ""))
        gates.append(g)
    for g in gates:
        if g.get("cache") and prob(draw, 0.3):
            # a cached gate that also emits an ordering signal, with a (non-target) waiter: a hit must re-produce the signal
            tg = {g.get("t"), g.get("f"), *g.get("targets", [])}
            cands_w = [i for i, n in enumerate(nodes) if n["k"] == "func" and n["name"] not in tg and not n.get("wait_for")]
            if cands_w:
                wi = draw(st.sampled_from(cands_w))
                g["emit"] = ["gsig_" + g["name"]]
                nodes[wi] = {**nodes[wi], "wait_for": ["gsig_" + g["name"]]}
                labels.add("cached_gate_emits")
    if len(gates) == 2 and all(x["k"] == "ifelse" for x in gates) and prob(draw, 0.6):
        # second gate shares the first gate's routing function (same params/table), different targets
        g0, g1 = gates
        g1.update({"fid": g0["name"], "params": list(g0["params"]), "table": list(g0["table"]), "cache": True})
        g0["cache"] = True
        if (g1["t"], g1["f"]) == (g0["t"], g0["f"]):
            g1["t"], g1["f"] = g0["f"], g0["t"]
            if g1["t"] == "END":
                g1["t"], g1["f"] = g1["f"], "END"
        labels.add("gates_share_function")
    nodes += gates
    return draw(gen.permuted(nodes)), sorted(labels)


@st.composite
def _case(draw, tier):
    nodes, labels = draw(_program())
    backend = draw(st.sampled_from(["mem:None", "mem:1", "mem:2", "mem:3", "mem:4", "disk", "disk"]))
    nruns = draw(st.integers(2, 8))
    # an alternative program sharing the cache: one cached node re-declared with permuted outputs / swapped inputs / swapped targets
    alt = None
    cands = [n for n in nodes if n.get("cache") and (len(n.get("outs", [])) >= 2 or len(n.get("params", [])) >= 2 or n["k"] == "ifelse" or (n.get("emit") and n["k"] == "func") or n.get("consts") or n.get("indent") is not None or n.get("partial") is not None)]
    if cands and prob(draw, 0.6):
        a = draw(st.sampled_from(cands))
        opts = []
        if len(a.get("outs", [])) >= 2:
            opts.append("permute_outputs")
        if len(a.get("params", [])) >= 2 and "rename_inputs" not in a:
            opts.append("swap_inputs")
        if a["k"] == "ifelse":
            opts.append("swap_targets")
        if a.get("emit") and a["k"] == "func":
            opts += ["rename_emit", "rename_emit_with_outputs"]
        if a.get("consts"):
            opts += ["permute_consts", "permute_consts"]
        if a.get("indent") is not None:
            opts += ["reindent", "reindent", "reindent"]
        if a.get("partial") is not None:
            opts += ["other_partial_state"] * 3
        if opts:
            alt = {"node": a["name"], "how": draw(st.sampled_from(opts))}
    # variants 4 and 5 supply True and 1.0 where variant 1 supplies 1: equal (==, hash) but DIFFERENT arguments
    history = [{"variant": draw(st.sampled_from([0, 1, 1, 2, 3, 4, 5])), "runner": draw(st.sampled_from(["sync", "async"])), "alt": alt is not None and draw(st.booleans())} for _ in range(nruns)]
    lru_ops = draw(st.lists(st.tuples(st.sampled_from(["get", "set", "set"]), st.integers(0, 6)), min_size=6, max_size=40))
    # raw disk entries: arbitrary payload / signature objects written behind DiskCache's back
    payload = st.one_of(st.binary(max_size=40), st.text(max_size=8), st.integers(), st.none(), st.just("PICKLE_OK"), st.just("PICKLE_GARBAGE"))
    sig = st.one_of(st.just("CORRECT"), st.just("ABSENT"), st.text(alphabet="0123456789abcdef", min_size=64, max_size=64), st.text(max_size=10), st.binary(max_size=8), st.integers())
    raw = draw(st.lists(st.tuples(payload, sig), max_size=6)) if backend == "disk" else []
    return {"nodes": nodes, "labels": labels, "backend": backend, "history": history, "faults": draw(st.booleans()), "fault_variant": draw(st.integers(0, 2)),
            "alt": alt, "lru_ops": lru_ops, "lru_size": draw(st.sampled_from([1, 2, 3, 4, 5])),
            "raw": [[_j(a), _j(b)] for a, b in raw]}


def _j(x):
    return {"__bytes__": list(x)} if isinstance(x, bytes) else x


def _unj(x):
    return bytes(x["__bytes__"]) if isinstance(x, dict) and "__bytes__" in x else x


def strategy(tier):
    return _case(tier)


def _check_value_structure(case, tmpdir, stats, labels):
    """A cached value whose parts SHARE one mutable object (rows = [r, r]) comes back from disk with that structure: a consumer
    that writes through one alias sees it through the other, exactly as in the uncached run."""
    from hypergraph import AsyncRunner, SyncRunner
    from hypergraph.cache import DiskCache

    spec = {"nodes": [
        {"k": "func", "name": "mkrows", "params": ["seed"], "defaults": {}, "outs": ["rows"], "cache": True, "expr": "[[seed]] * 2 + [[seed]]"},
        {"k": "func", "name": "paint", "params": ["rows"], "defaults": {}, "outs": ["painted"], "expr": "(rows[0].append('x'), (rows[0] is rows[1], rows[0] is rows[2], [list(r) for r in rows]))[1]"},
    ]}
    d = os.path.join(tmpdir, "structure")
    want = None
    for i, rk in enumerate(("sync", "sync", "async")):
        ctx = Ctx(compact=True)
        g = make_graph(ctx, spec, "sync")
        u = run_sync(g, {"seed": 5})
        runner = SyncRunner(cache=DiskCache(d)) if rk == "sync" else AsyncRunner(cache=DiskCache(d))
        o = (run_sync if rk == "sync" else run_async)(g, {"seed": 5}, runner=runner)
        if o.status != "completed" or u.status != "completed" or o.values.get("painted") != u.values.get("painted"):
            raise Violation("c09.not_transparent", f"[value structure, run {i} ({rk}, {'warm' if i else 'cold'} DiskCache)] a cached value rows=[r, r, other] whose first two parts are ONE list: the consumer reports "
                            f"(same object?, ...) {J(o.values.get('painted'))}; without a cache {J(u.values.get('painted'))}", what="object_sharing", warm=bool(i))
    stats["value_structure_checked"] = stats.get("value_structure_checked", 0) + 1
    labels.add("disk_value_with_shared_substructure")


def _check_raw_entries(case, tmpdir, stats):
    """DiskCache.get over arbitrary stored (payload, signature) objects: a hit only for authentic bytes, never an exception,
    never an unpickle of bytes whose signature does not verify."""
    import diskcache

    import hypergraph.cache as hc
    from hypergraph.cache import DiskCache

    if not case.get("raw"):
        return
    d = os.path.join(tmpdir, "raw")
    dc = DiskCache(d)
    with open(os.path.join(d, ".hypergraph_hmac_key"), "rb") as f:
        dirkey = f.read()
    raw_store = diskcache.Cache(d)
    spy_ok = hasattr(hc, "pickle")
    for i, (pl, sg) in enumerate(case["raw"]):
        pl, sg = _unj(pl), _unj(sg)
        key = f"rawkey{i}"
        value = ("stored", i)
        if pl == "PICKLE_OK":
            pl = pickle.dumps(value)
        elif pl == "PICKLE_GARBAGE":
            pl = b"\x80\x04garbage-not-a-pickle"
        if pl is None:
            raw_store.delete(key)
        else:
            raw_store.set(key, pl)
        authentic = False
        if sg == "ABSENT":
            raw_store.delete(key + ":hmac")
        elif sg == "CORRECT":
            if isinstance(pl, bytes):
                raw_store.set(key + ":hmac", hmaclib.new(dirkey, key.encode() + pl, hashlib.sha256).hexdigest())
                authentic = True
            else:
                raw_store.set(key + ":hmac", "0" * 64)
        else:
            raw_store.set(key + ":hmac", sg)
        spy = _PickleSpy()
        real = hc.pickle if spy_ok else None
        try:
            if spy_ok:
                hc.pickle = spy
            try:
                hit, got = dc.get(key)
            except Exception as e:  # noqa: BLE001
                raise Violation("c09.raw_entry_raised", f"DiskCache.get over stored payload {type(pl).__name__} / signature {type(sg).__name__} raised {type(e).__name__}: {e}", payload=type(pl).__name__) from None
        finally:
            if spy_ok:
                hc.pickle = real
        stats["corrupted_requested"] += 1
        if spy.loaded and not authentic:
            raise Violation("c09.unauthenticated_unpickle", f"pickle.loads was called on a payload ({pl!r:.60}) whose signature ({sg!r:.40}) does not verify", how="raw")
        want_hit = authentic and pl == pickle.dumps(value)
        if hit != want_hit or (hit and got != value):
            raise Violation("c09.raw_entry_served", f"DiskCache.get returned ({hit}, {got!r:.60}) for payload {pl!r:.60} with signature {sg!r:.40}; expected {'a hit' if want_hit else 'a miss'}", how="raw")
    raw_store.close()
    dc._cache.close()


# ------------------------------------------------------------------------------------


class LoggingBackend:
    """CacheBackend wrapper that records get/set in the shared trace."""

    def __init__(self, inner, trace):
        self.inner, self.trace = inner, trace

    def get(self, key):
        hit, val = self.inner.get(key)
        self.trace.append(("get", key, bool(hit)))
        return hit, val

    def set(self, key, value):
        self.trace.append(("set", key))
        self.inner.set(key, value)


class TraceRecorder(Recorder):
    def __init__(self, trace):
        super().__init__()
        self.trace = trace

    def on_event(self, event):
        self.events.append(event)
        self.trace.append(("event", event))


class AsyncTraceRecorder(AsyncRecorder):
    def __init__(self, trace):
        super().__init__()
        self.trace = trace

    async def on_event_async(self, event):
        self.events.append(event)
        self.trace.append(("event", event))


def _alt_nodes(nodes, alt):
    out = []
    emit_map = {}
    if alt["how"].startswith("rename_emit"):
        src = next(n for n in nodes if n["name"] == alt["node"])
        emit_map = {e: e + "_r" for e in src.get("emit", [])}
    for n in nodes:
        if n["name"] != alt["node"]:
            if emit_map and any(w in emit_map for w in n.get("wait_for", [])):
                n = {**n, "wait_for": [emit_map.get(w, w) for w in n["wait_for"]]}  # waiters follow the renamed signal
            out.append(n)
            continue
        m = dict(n)
        if alt["how"] == "permute_outputs":
            m["outs"] = list(reversed(n["outs"]))
        elif alt["how"] == "swap_inputs":
            p, q = n["params"][0], n["params"][1]
            m["rename_inputs"] = {p: q, q: p}
        elif alt["how"] == "permute_consts":
            m["consts"] = list(reversed(n["consts"]))  # ANOTHER function: same code shape, the two constants in swapped roles
            m["fid"] = n["name"] + "~pc"
        elif alt["how"] == "other_partial_state":
            m["partial"] = 2  # ANOTHER function: the same base function with another pre-bound value
            m["fid"] = n["name"] + "~pk"
        elif alt["how"] == "reindent":
            m["indent"] = 1  # ANOTHER function: the same tokens, one statement moved out of the loop
            m["fid"] = n["name"] + "~in"
        elif alt["how"] == "rename_emit":
            m["emit"] = [emit_map[e] for e in n["emit"]]  # re-declared with another signal name
        elif alt["how"] == "rename_emit_with_outputs":
            m["renames"] = list(n.get("renames", [])) + [{"kind": "outputs", "map": dict(emit_map)}]  # same declaration, signal renamed afterwards
        elif alt["how"] == "swap_targets":
            m["t"], m["f"] = n["f"], n["t"]
            if m["t"] == "END":  # keep it constructible: when_true may be END, that is fine
                pass
        out.append(m)
    return out


def _derived_after_use(case, gspec, nodes, labels):
    """A cached node that has ALREADY taken part in a cached run is renamed (outputs) and, with its consumers renamed along,
    run again on the same cache: nothing stored under the old output names may be served, the result equals the uncached run."""
    from hypergraph import Graph, SyncRunner
    from hypergraph.cache import InMemoryCache

    cands = [n for n in nodes if n["k"] == "func" and n.get("cache") and n.get("outs") and not n.get("renames")]
    if not cands:
        return
    a = cands[case["fault_variant"] % len(cands)]
    omap = {o: o + "_d" for o in a["outs"]}
    ctx = Ctx(compact=True)
    g1 = make_graph(ctx, gspec, "sync")
    vals, kw = _values(g1, 0)
    runner = SyncRunner(cache=InMemoryCache())
    o1 = run_sync(g1, vals, runner=runner, max_iterations=12, error_handling="continue", **kw)
    if o1.status == "raised":
        return
    try:
        derived = []
        for name, nd in g1.nodes.items():
            if name == a["name"]:
                nd = nd.with_outputs(dict(omap))
            elif any(p in omap for p in nd.inputs):
                nd = nd.with_inputs({p: omap[p] for p in nd.inputs if p in omap})
            derived.append(nd)
        g2 = Graph(derived)
        vals2, kw2 = _values(g2, 0)
    except Exception:  # noqa: BLE001 - e.g. the renamed name is also a wait_for name: not in this sub-domain
        return
    ctx.reset()
    out_u = run_sync(g2, vals2, max_iterations=12, error_handling="continue", **kw2)
    calls_u = ctx.count(ref.fid(a))
    ctx.reset()
    out_c = run_sync(g2, vals2, runner=runner, max_iterations=12, error_handling="continue", **kw2)
    labels.add("derived_after_cached_use")
    if out_u.status != out_c.status or out_u.values != out_c.values:
        raise Violation("c09.not_transparent", f"[outputs of {a['name']} renamed {omap} AFTER a cached run, same cache] uncached={out_u.brief()} cached={out_c.brief()}", what="derived_after_use")
    shared_fn = any(ref.fid(m) == ref.fid(a) and m["name"] != a["name"] for m in nodes)
    if calls_u and not ctx.count(ref.fid(a)) and not shared_fn:
        raise Violation("c09.served_other_outputs", f"[outputs of {a['name']} renamed {omap} after a cached run] the renamed node was served from the cache although nothing was ever stored under its output names", what="derived_after_use")


def _check_lru(case):
    """InMemoryCache against the reference LRU on a drawn get/set sequence."""
    from hypergraph.cache import InMemoryCache

    ops0 = [tuple(x) for x in case["lru_ops"]]
    # the drawn sequence, its reverse, and the sequence replayed against every capacity 1..6 (cheap, deterministic)
    for size, ops in [(case["lru_size"], ops0), (case["lru_size"], ops0[::-1])] + [(sz, ops0) for sz in range(1, 7) if sz != case["lru_size"]]:
        real, model = InMemoryCache(max_size=size), ref.LRU(size)
        for i, (op, k) in enumerate(ops):
            key = f"k{k}"
            if op == "set":
                real.set(key, ("v", k, i))
                model.set(key, ("v", k, i))
            else:
                got, want = real.get(key), model.get(key)
                if got[0] != want[0] or (got[0] and got[1] != want[1]):
                    raise Violation("c09.lru_model", f"InMemoryCache(max_size={size}) after {ops[:i + 1]}: get({key}) = {got}, reference LRU {want}", what="hit" if got[0] else "miss")


def _values(g, variant):
    sp = g.inputs
    variant = {4: True, 5: 1.0}.get(variant, variant)
    vals = {p: ("in", p, variant) for p in sp.required}
    for ps in sp.entrypoints.values():
        for p in ps:
            vals[p] = ("in", p, variant)
    kw = {"entrypoint": sorted(sp.entrypoints)[0]} if len(sp.entrypoints) > 1 else {}
    return vals, kw


def _summary(events):
    from hypergraph.events.types import NodeEndEvent, RouteDecisionEvent

    ended = sorted(e.node_name for e in events if isinstance(e, NodeEndEvent))
    # a decision of None selects nothing; whether an event announces it is not part of "routing"
    decisions = sorted((e.node_name, repr(e.decision)) for e in events if isinstance(e, RouteDecisionEvent) and e.decision is not None)
    return ended, decisions


def _ident(n):
    """What may legitimately share a cache entry: same function, same output names, same gate targets."""
    names = list(n.get("outs", []) + n.get("emit", []))
    for st_ in n.get("renames", []):
        if st_.get("kind") == "outputs":
            names = [st_["map"].get(x, x) for x in names]
    tg = (n.get("t"), n.get("f")) if n["k"] == "ifelse" else ((tuple(n["targets"]), n.get("multi"), n.get("fallback")) if n["k"] == "route" else None)
    return (ref.fid(n), tuple(names), tg)


def _positional_args(n, args_by_param):
    return args_by_param


def _run_pair(case, gspec, runner_kind, variant, backend, trace):
    """Run the uncached twin and the cached run; return (twin outcome, twin ctx, cached outcome, cached ctx, cached events)."""
    from hypergraph import AsyncRunner, SyncRunner

    flavour = "sync"
    ctx_u = Ctx(compact=True)
    g_u = make_graph(ctx_u, gspec, flavour)
    vals, kw = _values(g_u, variant)
    rec_u = Recorder() if runner_kind == "sync" else AsyncRecorder()
    if runner_kind == "sync":
        out_u = run_sync(g_u, vals, max_iterations=12, error_handling="continue", event_processors=[rec_u], **kw)
    else:
        out_u = run_async(g_u, vals, max_iterations=12, error_handling="continue", event_processors=[rec_u], **kw)
    ctx_c = Ctx(compact=True)
    g_c = make_graph(ctx_c, gspec, flavour)
    del trace[:]
    if runner_kind == "sync":
        rec_c = TraceRecorder(trace)
        out_c = run_sync(g_c, vals, runner=SyncRunner(cache=backend), max_iterations=12, error_handling="continue", event_processors=[rec_c], **kw)
    else:
        rec_c = AsyncTraceRecorder(trace)
        out_c = run_async(g_c, vals, runner=AsyncRunner(cache=backend), max_iterations=12, error_handling="continue", event_processors=[rec_c], **kw)
    return out_u, ctx_u, rec_u, out_c, ctx_c, rec_c


def _compare_transparent(tag, out_u, rec_u, out_c, rec_c):
    if out_u.status != out_c.status or out_u.values != out_c.values or repr(sorted((out_u.values or {}).items())) != repr(sorted((out_c.values or {}).items())):
        raise Violation("c09.not_transparent", f"[{tag}] uncached={out_u.brief()} cached={out_c.brief()}", what="values" if out_u.status == out_c.status else "status")
    if (out_u.error is None) != (out_c.error is None) or (out_u.error is not None and type(out_u.error) is not type(out_c.error)):
        raise Violation("c09.not_transparent", f"[{tag}] errors differ: {out_u.brief()} vs {out_c.brief()}", what="error")
    su, sc = _summary(rec_u.events), _summary(rec_c.events)
    if su != sc:
        raise Violation("c09.routing_differs", f"[{tag}] executed nodes / decisions differ: uncached {su} cached {sc}", what="routing")


def _attribute(trace, nodes, ctx_u, tag):
    """Walk the unified trace: each cache get is followed by the NodeStart of its node. Yields (key, hit, node spec, args)."""
    from hypergraph.events.types import NodeStartEvent

    by_name = {n["name"]: n for n in nodes}
    nth: dict = {}
    pending = None
    out = []
    for item in trace:
        if item[0] == "get":
            if pending is not None:
                raise HarnessError(f"two cache gets without a NodeStart in between ({tag})")
            pending = item
        elif item[0] == "event" and isinstance(item[1], NodeStartEvent):
            name = item[1].node_name
            k = nth.get(name, 0)
            nth[name] = k + 1
            if pending is not None:
                out.append((pending[1], pending[2], by_name[name], k))
                pending = None
    return out


def _check_model(tag, attributed, nodes, ctx_u_calls, ctx_c, model, keymap, stats, per_node_exec):
    """Abstract LRU model must predict every hit/miss; key strings must be injective over abstract keys."""
    for key, hit, n, k in attributed:
        calls = ctx_u_calls.get(n["name"], [])
        if k >= len(calls):
            continue  # twin did not execute it that often (failing run cut short); nothing to predict
        akey = (_ident(n), repr(calls[k]))  # by representation: 1, True and 1.0 are different arguments
        if key in keymap and keymap[key] != akey:
            raise Violation("c09.key_collision", f"[{tag}] one cache key stands for {keymap[key]} and for {akey}", what="collision")
        keymap[key] = akey
        want, _ = model.get(akey)
        if n.get("partial") is not None and want and not hit:
            # a functools.partial has no code of its own: the library identifies it by the OBJECT, and every graph build here makes
            # a new one - a miss is legitimate (a hit for another pre-bound state never is: see key_collision above)
            stats["partial_rebuilt_miss"] = stats.get("partial_rebuilt_miss", 0) + 1
            want = False
        if hit != want:
            raise Violation("c09.hit_prediction", f"[{tag}] node {n['name']} args {J(calls[k])}: cache {'hit' if hit else 'miss'} but the LRU model over (function, outputs, targets, arguments) says {'hit' if want else 'miss'}",
                            observed="hit" if hit else "miss")
        if hit:
            stats["hits"] += 1
        else:
            before = len(model.d)
            model.set(akey, True)
            if model.max is not None and before == model.max:
                stats["evictions"] += 1
        per_node_exec.setdefault(n["name"], []).append(hit)


def check_case(case, ev):
    nodes = case["nodes"]
    if case["backend"].startswith("mem") and not case["backend"].endswith("None"):
        # (object-identified partials occupy one slot per rebuilt object; the LRU reference is kept exact by using them with
        # unbounded backends only)
        nodes = [{k_: v_ for k_, v_ in n.items() if k_ != "partial"} for n in nodes]
        case = {**case, "nodes": nodes, "alt": None if (case.get("alt") or {}).get("how") == "other_partial_state" else case.get("alt")}
    labels = set(case["labels"]) | {"backend:" + case["backend"].split(":")[0]}
    gspec = {"nodes": nodes}
    try:
        make_graph(Ctx(compact=True), gspec, "sync")
    except Exception as e:  # noqa: BLE001
        ev.discard("construct:" + type(e).__name__ + ":" + str(e).split("\n")[0][:40])
        return
    from hypergraph.cache import DiskCache, InMemoryCache

    tmpdir = None
    trace: list = []
    stats = {"hits": 0, "evictions": 0, "corrupted_requested": 0}
    try:
        if case["backend"].startswith("mem"):
            size = case["backend"].split(":")[1]
            size = None if size == "None" else int(size)
            inner = InMemoryCache(max_size=size)
        else:
            # (a memory-backed directory when there is one: the checks are about what DiskCache reads back, not about the disk)
            shm = "/dev/shm" if os.path.isdir("/dev/shm") and os.access("/dev/shm", os.W_OK) else None
            tmpdir = tempfile.mkdtemp(prefix="hgverif-c09-", dir=shm)
            size = None
            inner = DiskCache(os.path.join(tmpdir, "cache"))
        backend = LoggingBackend(inner, trace)
        model = ref.LRU(size)
        keymap: dict = {}
        _check_lru(case)
        _derived_after_use(case, gspec, nodes, labels)
        gspec_alt = {"nodes": _alt_nodes(nodes, case["alt"])} if case.get("alt") else None
        if gspec_alt is not None:
            try:
                make_graph(Ctx(compact=True), gspec_alt, "sync")
                labels.add("alt_program:" + case["alt"]["how"])
            except Exception:  # noqa: BLE001
                gspec_alt = None
        for step, h in enumerate(case["history"]):
            tag = f"run {step} ({h['runner']}, variant {h['variant']}, {case['backend']}{', alt program' if h.get('alt') and gspec_alt else ''})"
            use_alt = bool(h.get("alt") and gspec_alt)
            cur_nodes = gspec_alt["nodes"] if use_alt else nodes
            out_u, ctx_u, rec_u, out_c, ctx_c, rec_c = _run_pair(case, gspec_alt if use_alt else gspec, h["runner"], h["variant"], backend, trace)
            if out_u.status == "raised":
                labels.add("rejected")
                continue
            _compare_transparent(tag, out_u, rec_u, out_c, rec_c)
            # per-node argument sequences of the twin (node name -> list of args); shared fids are separated by call order
            calls_u = _calls_by_node(cur_nodes, rec_u.events, ctx_u)
            attributed = _attribute(list(trace), cur_nodes, ctx_u, tag)
            per_node_exec: dict = {}
            _check_model(tag, attributed, cur_nodes, calls_u, ctx_c, model, keymap, stats, per_node_exec)
            # a hit must not invoke the function; a miss must
            _calls_by_node(cur_nodes, rec_c.events, ctx_c, hits=per_node_exec)
        if tmpdir is not None:
            _check_value_structure(case, tmpdir, stats, labels)
            _check_raw_entries(case, tmpdir, stats)
        # ---- fault enumeration on disk
        if tmpdir is not None and case["faults"]:
            _fault_matrix(case, gspec, nodes, tmpdir, stats, labels, ev)
    finally:
        if tmpdir is not None:
            shutil.rmtree(tmpdir, ignore_errors=True)
    nontrivial = (stats["hits"] >= 1 and stats["evictions"] >= 1) or stats["corrupted_requested"] >= 1
    if stats["hits"]:
        labels.add("hit")
    if stats["evictions"]:
        labels.add("eviction")
    ev.count("cache_hits", stats["hits"])
    ev.count("evictions", stats["evictions"])
    ev.count("fault_sites_requested", stats["corrupted_requested"])
    ev.case(case, nontrivial, sorted(labels))


def _calls_by_node(nodes, events, ctx, hits=None):
    """Assign the call log (keyed by function id) to node executions in NodeStart order.
    With `hits` (node name -> [hit flags in execution order]) hit executions consume no log entry; then every log entry
    must be consumed exactly (a hit that invoked the function, or a miss that did not, shows up as a mismatch)."""
    from hypergraph.events.types import NodeStartEvent

    by_name = {n["name"]: n for n in nodes}
    queues: dict = {}
    for f, a in ctx.log:
        queues.setdefault(f, []).append(a)
    pos: dict = {}
    seen: dict = {}
    out: dict = {}
    for e in events:
        if not isinstance(e, NodeStartEvent) or e.node_name not in by_name:
            continue
        n = by_name[e.node_name]
        k = seen.get(n["name"], 0)
        seen[n["name"]] = k + 1
        if hits is not None and n.get("cache") and n["name"] in hits and k < len(hits[n["name"]]) and hits[n["name"]][k]:
            continue  # served from cache: must not have invoked the function
        f = ref.fid(n)
        i = pos.get(f, 0)
        q = queues.get(f, [])
        if i < len(q):
            out.setdefault(n["name"], []).append(q[i])
            pos[f] = i + 1
        elif hits is not None:
            raise Violation("c09.miss_without_call", f"node {n['name']} execution #{k} was a cache miss (or uncached) but its function was not invoked")
    if hits is not None:
        for f, q in queues.items():
            if pos.get(f, 0) != len(q):
                raise Violation("c09.hit_invoked_function", f"function {f} was invoked {len(q)} times but only {pos.get(f, 0)} executions were cache misses", what="extra_invocation")
    return out


# ------------------------------------------------------------------------------------
# fault enumeration
# ------------------------------------------------------------------------------------


class _PickleSpy:
    def __init__(self):
        self.loaded = []
        self.dumped = []

    def dumps(self, obj, *a, **kw):
        raw = pickle.dumps(obj, *a, **kw)
        self.dumped.append(raw)
        return raw

    def loads(self, data, *a, **kw):
        self.loaded.append(data)
        return pickle.loads(data, *a, **kw)  # noqa: S301

    def __getattr__(self, name):
        return getattr(pickle, name)


def _verify(dirkey, cache_key, raw, stored):
    want = hmaclib.new(dirkey, cache_key.encode() + raw, hashlib.sha256).hexdigest()
    return isinstance(stored, str) and hmaclib.compare_digest(want, stored)


def _corrupt(dc, key, how):
    raw = dc.get(key)
    hk = key + ":hmac"
    if how == "bitflip":
        b = bytearray(raw)
        b[len(b) // 2] ^= 0x10
        dc.set(key, bytes(b))
    elif how == "truncate":
        dc.set(key, raw[: max(1, len(raw) // 2)])
    elif how == "as_str":
        dc.set(key, "not bytes")
    elif how == "as_int":
        dc.set(key, 12345)
    elif how == "as_float":
        dc.set(key, 1.5)
    elif how == "as_dict":
        dc.set(key, {"o": 1})
    elif how == "hmac_deleted":
        dc.delete(hk)
    elif how == "payload_deleted":
        dc.delete(key)
    elif how == "hmac_altered":
        h = dc.get(hk)
        dc.set(hk, ("0" if h[0] != "0" else "1") + h[1:])
    elif how == "hmac_bytes":
        dc.set(hk, b"\x00" * 32)
    elif how == "torn_overwrite":
        dc.set(key, pickle.dumps({"evil": ("torn",)}))
    elif how == "hmac_truncated":
        h = dc.get(hk)
        dc.set(hk, h[: len(h) // 2])  # a signature that was only half written
    elif how == "hmac_empty":
        dc.set(hk, "")
    elif how == "hmac_empty_forged":
        dc.set(hk, "")
        dc.set(key, pickle.dumps({"evil": ("forged",)}))
    elif how == "hmac_extended":
        dc.set(hk, dc.get(hk) + "00")
    else:
        raise AssertionError(how)


def _fault_matrix(case, gspec, nodes, tmpdir, stats, labels, ev):
    import diskcache

    import hypergraph.cache as hc
    from hypergraph import SyncRunner
    from hypergraph.cache import DiskCache

    variant = case["fault_variant"]
    src = os.path.join(tmpdir, "populated")
    # populate a fresh directory with one run; attribute keys to nodes through the trace
    trace: list = []
    ctx_p = Ctx(compact=True)
    g_p = make_graph(ctx_p, gspec, "sync")
    vals, kw = _values(g_p, variant)
    rec = TraceRecorder(trace)
    out_p = run_sync(g_p, vals, runner=SyncRunner(cache=LoggingBackend(DiskCache(src), trace)), max_iterations=12, error_handling="continue", event_processors=[rec], **kw)
    if out_p.status == "raised":
        return
    ctx_u = Ctx(compact=True)
    g_u = make_graph(ctx_u, gspec, "sync")
    out_u = run_sync(g_u, vals, max_iterations=12, error_handling="continue", **kw)
    key_node = {}
    for key, hit, n, k in _attribute(list(trace), nodes, ctx_p, "populate"):
        key_node.setdefault(key, n)
    dc = diskcache.Cache(src)
    stored = [k for k in dc.iterkeys() if not str(k).endswith(":hmac")]
    dc.close()
    with open(os.path.join(src, ".hypergraph_hmac_key"), "rb") as f:
        dirkey = f.read()
    spy_ok = hasattr(hc, "pickle")
    if not spy_ok:
        ev.count("pickle_spy_unavailable")
    sites = [(k, how) for k in stored for how in CORRUPTIONS]
    for key, how in sites:
        work = os.path.join(tmpdir, "work")
        shutil.rmtree(work, ignore_errors=True)
        shutil.copytree(src, work)
        dcw = diskcache.Cache(work)
        _corrupt(dcw, key, how)
        snapshot = {k: dcw.get(k) for k in dcw.iterkeys()}
        dcw.close()
        _rerun_and_check(gspec, nodes, vals, kw, work, out_u, key, key_node.get(key), how, dirkey, snapshot, stats, spy_ok)
    # same DiskCache instance: populate, hit (verified once), then damage the payload, then read again
    for key in stored[:3]:
        for how in ("bitflip", "torn_overwrite", "truncate"):
            work = os.path.join(tmpdir, "work")
            shutil.rmtree(work, ignore_errors=True)
            d = DiskCache(work)
            for _ in range(2):  # populate, then a run served from the cache
                cw = Ctx(compact=True)
                run_sync(make_graph(cw, gspec, "sync"), vals, runner=SyncRunner(cache=d), max_iterations=12, error_handling="continue", **kw)
            dcw = diskcache.Cache(work)
            if dcw.get(key) is None:
                dcw.close()
                continue
            _corrupt(dcw, key, how)
            dcw.close()
            tr2: list = []
            c3 = Ctx(compact=True)
            o3 = run_sync(make_graph(c3, gspec, "sync"), vals, runner=SyncRunner(cache=LoggingBackend(d, tr2)), max_iterations=12, error_handling="continue", **kw)
            d._cache.close()
            if o3.status != out_u.status or o3.values != out_u.values:
                raise Violation("c09.fault_not_a_miss", f"[{how} after a verified hit, same DiskCache instance] gave {o3.brief()}, uncached {out_u.brief()}", how=how, same_instance=True)
            first_set = next((i for i, t in enumerate(tr2) if t[0] == "set" and t[1] == key), len(tr2))
            if any(t[0] == "get" and t[1] == key and t[2] for t in tr2[:first_set]):
                raise Violation("c09.fault_served", f"[{how} after a verified hit, same DiskCache instance] the damaged entry was served as a hit", how=how, same_instance=True)
            stats["corrupted_requested"] += 1
    # crash between the two writes: drop the k-th backend write of a fresh population, for every k
    nwrites = sum(1 for t in trace if t[0] == "set") * 2
    for drop in range(nwrites):
        work = os.path.join(tmpdir, "work")
        shutil.rmtree(work, ignore_errors=True)
        d = DiskCache(work)
        real_set = d._cache.set if hasattr(d, "_cache") else None
        if real_set is None:
            ev.count("torn_write_injection_unavailable")
            break
        counter = {"n": 0}

        def dropping_set(k, v, *a, _real=real_set, _drop=drop, **kw2):
            i = counter["n"]
            counter["n"] += 1
            if i == _drop:
                return True  # the process died before this write reached the disk
            return _real(k, v, *a, **kw2)

        d._cache.set = dropping_set
        c1 = Ctx(compact=True)
        g1 = make_graph(c1, gspec, "sync")
        o1 = run_sync(g1, vals, runner=SyncRunner(cache=d), max_iterations=12, error_handling="continue", **kw)
        if o1.status != out_u.status or o1.values != out_u.values:
            raise Violation("c09.torn_write_run", f"run with backend write #{drop} lost gave {o1.brief()}, uncached {out_u.brief()}")
        d._cache.close()
        dcw = diskcache.Cache(work)
        snapshot = {k: dcw.get(k) for k in dcw.iterkeys()}
        dcw.close()
        _rerun_and_check(gspec, nodes, vals, kw, work, out_u, None, None, f"write_{drop}_lost", dirkey=None, snapshot=snapshot, stats=stats, spy_ok=spy_ok)
    labels.add("fault_matrix")
    ev.count("fault_sites", len(sites) + nwrites)


def _rerun_and_check(gspec, nodes, vals, kw, work, out_u, key, node, how, dirkey, snapshot, stats, spy_ok):
    import hypergraph.cache as hc
    from hypergraph import SyncRunner
    from hypergraph.cache import DiskCache

    spy = _PickleSpy()
    real_pickle = hc.pickle if spy_ok else None
    trace: list = []
    ctx = Ctx(compact=True)
    g = make_graph(ctx, gspec, "sync")
    try:
        if spy_ok:
            hc.pickle = spy
        try:
            backend = LoggingBackend(DiskCache(work), trace)
            out = run_sync(g, vals, runner=SyncRunner(cache=backend), max_iterations=12, error_handling="continue", **kw)
            backend.inner._cache.close()
        except Exception as e:  # noqa: BLE001
            raise Violation("c09.fault_raised", f"[{how}] re-run over the damaged cache raised {type(e).__name__}: {e}", how=how.split("_")[0]) from None
    finally:
        if spy_ok:
            hc.pickle = real_pickle
    if out.status != out_u.status or out.values != out_u.values or (out.error is not None and type(out.error) is not type(out_u.error)):
        raise Violation("c09.fault_not_a_miss", f"[{how}] re-run over the damaged cache gave {out.brief()}, uncached run {out_u.brief()}", how=how)
    requested = [t for t in trace if t[0] == "get" and (key is None or t[1] == key)]
    if key is not None and requested:
        stats["corrupted_requested"] += 1
        # a hit AFTER the key was rewritten in this run (another node with the same key) reads the repaired entry
        first_set = next((i for i, t in enumerate(trace) if t[0] == "set" and t[1] == key), len(trace))
        if any(t[2] for t in trace[:first_set] if t[0] == "get" and t[1] == key):
            raise Violation("c09.fault_served", f"[{how}] the damaged entry was served as a hit", how=how)
        if node is not None and ctx.count(ref.fid(node)) == 0:
            raise Violation("c09.fault_no_recompute", f"[{how}] node {node['name']} was not re-executed although its entry is damaged", how=how)
        # the miss re-computed and re-stored the entry: one more run (new DiskCache on the directory) must be served from it
        if node is not None and out.status == "completed" and any(t[0] == "set" and t[1] == key for t in trace):
            trace3: list = []
            ctx3 = Ctx(compact=True)
            g3 = make_graph(ctx3, gspec, "sync")
            b3 = LoggingBackend(DiskCache(work), trace3)
            try:
                out3 = run_sync(g3, vals, runner=SyncRunner(cache=b3), max_iterations=12, error_handling="continue", **kw)
            finally:
                b3.inner._cache.close()
            if out3.status != out_u.status or out3.values != out_u.values:
                raise Violation("c09.fault_not_healed", f"[{how}] the run after the repairing run gave {out3.brief()}, uncached {out_u.brief()}", how=how, what="values")
            got3 = [t for t in trace3 if t[0] == "get" and t[1] == key]
            if got3 and not got3[0][2]:
                raise Violation("c09.fault_not_healed", f"[{how}] after a run that recomputed and re-stored the damaged entry of {node['name']}, the next run misses it again (the function is invoked on every run)", how=how, what="miss_again")
            stats["healed_then_hit"] = stats.get("healed_then_hit", 0) + 1
    elif key is None:
        stats["corrupted_requested"] += 1
    # only authenticated bytes may reach pickle.loads
    if spy_ok:
        if dirkey is None:
            with open(os.path.join(work, ".hypergraph_hmac_key"), "rb") as f:
                dirkey = f.read()
        for raw in spy.loaded:
            ok = raw in spy.dumped or any(
                isinstance(v, bytes) and v == raw and _verify(dirkey, str(k), raw, snapshot.get(str(k) + ":hmac"))
                for k, v in snapshot.items() if not str(k).endswith(":hmac")
            )
            if not ok:
                raise Violation("c09.unauthenticated_unpickle", f"[{how}] pickle.loads received {len(raw)} bytes that verify under no stored (key, hmac) pair", how=how.split("_")[0])
