"""C06 - renames are transparent: only wiring names change, never what is computed.  DESIGN.md section 4/C06."""
from __future__ import annotations

from hypothesis import strategies as st

from .. import gen, ref
from ..build import TYPES, Ctx, J, T, make_graph, make_node
from ..core import Violation
from ..gen import prob
from ..observe import run_async, run_sync

ID = "C06"
LEVEL = "exploration"
BUDGET = {"quick": 4800, "thorough": 64000}
SHARDS = {"quick": 16, "thorough": 16}
RULE = (
    "Part A: one node of every kind (function, if/else gate, route gate, interrupt, nested-graph node, mapping nested-graph node) "
    "with 1-4 parameters (distinct defaults, distinct annotations; inner binding for graph nodes), optionally used/inspected before "
    "renaming, then a Hypothesis-drawn history of 1-6 batches of with_inputs / with_outputs / with_name (constructor rename_inputs "
    "first for callables): each batch a partial injective map over the current names whose targets come from the current names "
    "(swaps, rotations), earlier names and fresh names; invalid batches (unknown key, duplicate result) are interleaved and must "
    "raise RenameError leaving the node unchanged. Oracle: positional rename model - inputs/outputs tuples, default / bound "
    "value / type reported under the current name only, arguments delivered to the original parameter positions when run "
    "through a runner, results under the current output names, mapped parameter follows the rename. Part B: a generated acyclic "
    "graph alpha-renamed by a bijection realised through per-node histories must return the original values under the bijection. "
    "Non-trivial = history with >=2 batches containing a swap/rotation or a re-used earlier name."
)
ASSUMPTIONS = ["node functions are harness-generated; values are symbolic terms so a mis-delivered argument is visible"]

POOL = ["a", "b", "c", "d", "e", "f", "g", "h"]
OPOOL = ["r", "s", "t", "u", "v", "w"]


@st.composite
def _batch(draw, cur, pool, seen):
    """A valid batch over current names `cur`: subset -> injective targets, final tuple duplicate-free."""
    k = draw(st.integers(1, len(cur)))
    olds = draw(st.permutations(cur))[:k]
    staying = [x for x in cur if x not in olds]
    free = [x for x in dict.fromkeys(list(olds) + list(seen) + pool) if x not in staying]
    # bias towards names already in play (swaps / rotations / re-use)
    order = draw(st.permutations(free))
    if draw(st.booleans()):
        inplay = [x for x in order if x in olds or x in seen]
        order = inplay + [x for x in order if x not in inplay]
    news = list(order[:k])
    m = {o: n for o, n in zip(olds, news) if o != n}
    return m


@st.composite
def _history(draw, n_in, n_out, allow_name=True):
    cur_in = POOL[:n_in]
    cur_out = OPOOL[:n_out]
    seen_in, seen_out = set(cur_in), set(cur_out)
    steps = []
    for _ in range(draw(st.integers(1, 6))):
        r = draw(st.integers(0, 9))
        if r < 6 and cur_in:
            if prob(draw, 0.12):
                bad = draw(st.sampled_from(["unknown", "dup"]))
                if bad == "unknown":
                    m = {"zz_unknown": "q"}
                elif len(cur_in) >= 2:
                    m = {cur_in[0]: cur_in[1]}
                else:
                    continue
                steps.append({"kind": "inputs", "map": m, "invalid": True})
                continue
            m = draw(_batch(cur_in, POOL, seen_in))
            if not m:
                continue
            cur_in = [m.get(x, x) for x in cur_in]
            seen_in |= set(cur_in)
            steps.append({"kind": "inputs", "map": m})
        elif r < 9 and cur_out:
            if prob(draw, 0.12):
                m = {"zz_unknown": "q"} if draw(st.booleans()) or len(cur_out) < 2 else {cur_out[0]: cur_out[1]}
                steps.append({"kind": "outputs", "map": m, "invalid": True})
                continue
            m = draw(_batch(cur_out, OPOOL, seen_out))
            if not m:
                continue
            cur_out = [m.get(x, x) for x in cur_out]
            seen_out |= set(cur_out)
            steps.append({"kind": "outputs", "map": m})
        elif allow_name:
            steps.append({"kind": "name", "name": draw(st.sampled_from(["nodeA", "nodeB", "nd"]))})
    return steps


@st.composite
def _case(draw, tier):
    if prob(draw, 0.08):
        # Part C: ONE inner graph with a bound input, used twice in an enclosing graph: under its own names and with the bound
        # input (and the outputs) renamed; the enclosing graph may bind the inner name itself, and is nested once more
        return {"part": "C", "via_temp": draw(st.booleans()), "new_name": draw(st.sampled_from(["fee", "fee", "x", "zz"])), "outer_binds_inner_name": prob(draw, 0.3),
                "order": draw(st.integers(0, 1)), "levels": draw(st.integers(1, 3)), "runner": draw(st.sampled_from(["sync", "async"])), "supply_new": prob(draw, 0.3)}
    if prob(draw, 0.25):
        # Part B: alpha-renaming
        topo = draw(gen.g1_nodes(2, 7))
        names = sorted({p for n in topo for p in n["params"]} | {o for n in topo for o in n["outs"]})
        fresh = [f"z{i}" for i in range(len(names))]
        style = draw(st.sampled_from(["permute", "fresh", "mixed"]))
        if style == "permute":
            tgt = draw(st.permutations(names))
        elif style == "fresh":
            tgt = fresh
        else:
            tgt = draw(st.permutations(names + fresh))[: len(names)]
        sigma = dict(zip(names, tgt))
        renames = {}
        for n in topo:
            im = {p: sigma[p] for p in n["params"]}
            om = {o: sigma[o] for o in n["outs"]}
            renames[n["name"]] = draw(gen.rename_history(im, "inputs", "ai_")) + draw(gen.rename_history(om, "outputs", "ao_"))
        bind = {p: ["bound", p] for p in draw(gen.subset([x for x in names if x not in ref.producers(topo)], 0.3))}
        return {"part": "B", "nodes": draw(gen.permuted(topo)), "sigma": sigma, "renames": renames, "bind": bind,
                "omit_optional": draw(st.booleans())}
    kind = draw(st.sampled_from(["func", "func", "ifelse", "route", "interrupt", "graph", "graph", "mapgraph"]))
    n_in = draw(st.integers(1, 4))
    n_out = 0 if kind in ("ifelse", "route") else draw(st.integers(1, 3))
    n_def = draw(st.integers(0, n_in))
    if kind == "mapgraph":
        n_def = min(n_def, n_in - 1)
    hist = draw(_history(n_in, n_out))
    case = {
        "part": "A", "kind": kind, "n_in": n_in, "n_out": n_out, "n_def": n_def, "history": hist,
        "use_first": draw(st.booleans()),
        "ctor_rename": draw(st.booleans()) and kind in ("func", "ifelse", "route", "interrupt"),
        "inner_bind": draw(st.integers(0, n_in - 1)) if kind in ("graph", "mapgraph") and draw(st.booleans()) else None,
        "supply": [draw(st.booleans()) for _ in range(n_in)],
        "emit_renamed": draw(st.booleans()),  # func / interrupt / gate: an emit signal renamed through with_outputs, with a waiter on the new name
        "rerun_receiver": draw(st.booleans()),  # after all derivations the ORIGINAL node object is run again under its own names
        "map_when": draw(st.integers(0, 6)),
        "map_param": draw(st.integers(0, n_in - 1)),
        "map_mode": draw(st.sampled_from(["zip", "product"])),
        "nitems": draw(st.integers(0, 3)),
        "two_inner": draw(st.booleans()),
        # the function node is cacheable and runs on a runner that carries a cache; afterwards the ORIGINAL node is given the very
        # same {external name: value} mapping on the same runner (when the history permuted the input names, the two nodes wire
        # those values to different parameters: neither may be served the other's result)
        "cached": draw(st.booleans()),
    }
    return case


def strategy(tier):
    return _case(tier)


# ------------------------------------------------------------------------------------


def _spec(case):
    """Base node spec (before history) with original params POOL[:n], defaults on the last n_def, distinct annotations."""
    n_in, n_out, n_def = case["n_in"], case["n_out"], case["n_def"]
    params = POOL[:n_in]
    defaults = {p: ["dflt", p] for p in params[n_in - n_def:]}
    ann = {p: f"T{i}" for i, p in enumerate(params)}
    kind = case["kind"]
    base = {"name": "nd0", "params": params, "defaults": defaults, "ann": ann}
    if case.get("emit_renamed") and kind in ("func", "interrupt", "ifelse", "route"):
        base["emit"] = ["sig_e"]
    if kind == "func":
        return {**base, "k": "func", "outs": OPOOL[:n_out], **({"cache": True} if case.get("cached") else {})}
    if kind == "interrupt":
        return {**base, "k": "interrupt", "outs": OPOOL[:n_out], "mode": "auto", "answer": ["answer"]}
    if kind == "ifelse":
        return {**base, "k": "ifelse", "t": "ta", "f": "tb", "table": [True, False, True]}
    if kind == "route":
        return {**base, "k": "route", "targets": ["ta", "tb", "END"], "fallback": None, "multi": False, "table": ["ta", "tb", None, "END"]}
    raise AssertionError(kind)


def _snapshot(node):
    d = {"name": node.name, "inputs": tuple(node.inputs), "outputs": tuple(node.outputs)}
    d["defaults"] = {p: node.get_default_for(p) for p in node.inputs if node.has_default_for(p)}
    d["types"] = {p: node.get_input_type(p) for p in node.inputs}
    return d


def _apply(node, step):
    if step["kind"] == "inputs":
        return node.with_inputs(dict(step["map"]))
    if step["kind"] == "outputs":
        return node.with_outputs(dict(step["map"]))
    return node.with_name(step["name"])


def _run_history(node, case, cur_in, cur_out, labels, on_step=None):
    """Apply the history, maintaining the positional model; returns (node, cur_in, cur_out, name)."""
    from hypergraph.nodes._rename import RenameError

    name = node.name
    seen_in, seen_out = set(cur_in), set(cur_out)
    interesting = 0
    valid = 0
    for i, step in enumerate(case["history"]):
        if on_step is not None:
            node = on_step(i, node, cur_in)
        before = _snapshot(node)
        if step.get("invalid"):
            try:
                node2 = _apply(node, step)
            except RenameError:
                if _snapshot(node) != before:
                    raise Violation("c06.invalid_batch_mutated", f"rejected batch {step} changed the node: {before} -> {_snapshot(node)}") from None
                labels.add("invalid_batch_rejected")
                continue
            raise Violation("c06.invalid_batch_accepted", f"batch {step} on inputs={cur_in} outputs={cur_out} was accepted: {_snapshot(node2)}")
        try:
            node2 = _apply(node, step)
        except Exception as e:  # noqa: BLE001
            raise Violation("c06.valid_batch_rejected", f"batch {step} on inputs={cur_in} outputs={cur_out} raised {type(e).__name__}: {e}") from None
        if _snapshot(node) != before:
            raise Violation("c06.receiver_changed", f"batch {step}: receiver changed {before} -> {_snapshot(node)}")
        node = node2
        valid += 1
        if step["kind"] == "inputs":
            m = step["map"]
            if any(v in cur_in for v in m.values()) or any(v in seen_in and v not in cur_in for v in m.values()):
                interesting += 1
            cur_in = [m.get(x, x) for x in cur_in]
            seen_in |= set(cur_in)
        elif step["kind"] == "outputs":
            m = step["map"]
            if any(v in cur_out for v in m.values()) or any(v in seen_out and v not in cur_out for v in m.values()):
                interesting += 1
            cur_out = [m.get(x, x) for x in cur_out]
            seen_out |= set(cur_out)
        else:
            name = step["name"]
    return node, cur_in, cur_out, name, (valid >= 2 and interesting >= 1)


def _check_static(node, case, cur_in, cur_out, name, defaults_by_pos, types_by_pos, what):
    if list(node.inputs) != cur_in:
        raise Violation("c06.inputs", f"[{what}] inputs {node.inputs}, model {cur_in}; history={J(case['history'])}")
    if list(node.outputs)[: len(cur_out)] != cur_out:
        raise Violation("c06.outputs", f"[{what}] outputs {node.outputs}, model {cur_out}; history={J(case['history'])}")
    if node.name != name:
        raise Violation("c06.name", f"[{what}] name {node.name}, model {name}")
    for i, cur in enumerate(cur_in):
        has = node.has_default_for(cur)
        want = i in defaults_by_pos
        if has != want:
            raise Violation("c06.has_default", f"[{what}] has_default_for({cur!r})={has}, original parameter #{i} {'has' if want else 'has no'} default; inputs={cur_in} history={J(case['history'])}", kind_of_node=case["kind"])
        if has and node.get_default_for(cur) != defaults_by_pos[i]:
            raise Violation("c06.default_value", f"[{what}] default of {cur!r} is {J(node.get_default_for(cur))}, expected {J(defaults_by_pos[i])}; history={J(case['history'])}", kind_of_node=case["kind"])
        if types_by_pos is not None and node.get_input_type(cur) is not types_by_pos[i]:
            raise Violation("c06.type", f"[{what}] type of {cur!r} is {node.get_input_type(cur)}, expected {types_by_pos[i]}; history={J(case['history'])}", kind_of_node=case["kind"])
    if hasattr(node, "defaults"):
        want = {cur_in[i]: v for i, v in defaults_by_pos.items()}
        if dict(node.defaults) != want:
            raise Violation("c06.defaults_dict", f"[{what}] defaults {J(dict(node.defaults))} expected {J(want)}; history={J(case['history'])}")


def _part_a(case, ev):
    from hypergraph import Graph

    kind = case["kind"]
    labels = {f"kind:{kind}"}
    n_in, n_out, n_def = case["n_in"], case["n_out"], case["n_def"]
    orig = POOL[:n_in]
    ctx = Ctx()
    defaults_by_pos = {i: ("dflt", orig[i]) for i in range(n_in - n_def, n_in)}
    types_by_pos = [TYPES[f"T{i}"] for i in range(n_in)]
    hist = list(case["history"])
    cur_in, cur_out = list(orig), OPOOL[:n_out]
    slot_orig = list(range(n_in))
    fid = "nd0"
    bound_pos = None
    if kind in ("graph", "mapgraph"):
        inner_nodes = [{"k": "func", "name": "nd0", "params": orig, "defaults": {p: ["dflt", p] for p in orig[n_in - n_def:]},
                        "ann": {p: f"T{i}" for i, p in enumerate(orig)}, "outs": OPOOL[:n_out]}]
        if case["two_inner"]:
            # a second inner consumer of the first parameter (same default rule) and of the first output
            d2 = {orig[0]: ["dflt", orig[0]]} if (n_in - n_def) <= 0 else {}
            inner_nodes.append({"k": "func", "name": "nd1", "params": [OPOOL[0]] + [orig[0]], "defaults": d2, "ann": {orig[0]: "T0"}, "outs": ["x_extra"]})
        gspec = {"nodes": inner_nodes, "name": "inner"}
        if case["inner_bind"] is not None:
            bound_pos = case["inner_bind"]
            gspec["bind"] = {orig[bound_pos]: ["ibound", orig[bound_pos]]}
            labels.add("inner_binding")
        inner = make_graph(ctx, gspec, "sync")
        node = inner.as_node()
        # a graph node lists required inputs before optional ones: the positional model is over the wrapper's own tuple
        if set(node.inputs) != set(orig):
            raise Violation("c06.wrapper_inputs", f"wrapper inputs {node.inputs} != inner parameters {orig}")
        slot_orig = [orig.index(x) for x in node.inputs]
        cur_in = list(node.inputs)
        if case["two_inner"]:
            cur_out = cur_out + ["x_extra"]
    else:
        spec = _spec(case)
        if case["ctor_rename"] and hist and hist[0]["kind"] == "inputs" and not hist[0].get("invalid"):
            spec["rename_inputs"] = hist[0]["map"]
            m = hist[0]["map"]
            cur_in = [m.get(x, x) for x in cur_in]
            hist = hist[1:]
            labels.add("ctor_rename_inputs")
        node = make_node(ctx, spec, "sync")
    case2 = {**case, "history": hist}
    if case["use_first"]:
        # use / inspect the node before renaming it (populates cached properties on the original)
        _snapshot(node)
        if kind in ("func", "interrupt", "graph", "mapgraph"):
            Graph([node])
        labels.add("used_before_rename")

    mapped_pos = None

    def on_step(i, nd, cur):
        nonlocal mapped_pos
        if kind == "mapgraph" and mapped_pos is None and i >= case["map_when"] % (len(hist) + 1):
            # pick a parameter without default/binding so the list value is always supplied
            cands = [j for j in range(n_in) if j not in defaults_by_pos and j != bound_pos] or [0]
            mapped_pos = cands[case["map_param"] % len(cands)]
            return nd.map_over(cur[slot_orig.index(mapped_pos)], mode=case["map_mode"])
        return nd

    node0, cur_in0 = node, list(cur_in)
    node, cur_in, cur_out, name, interesting = _run_history(node, case2, cur_in, cur_out, labels, on_step)
    waiter = None
    if case.get("emit_renamed") and "sig_e" in getattr(node, "outputs", ()):
        node = node.with_outputs({"sig_e": "sig_r"})
        waiter = make_node(ctx, {"k": "func", "name": "waiter", "params": [], "defaults": {}, "outs": ["w_out"], "wait_for": ["sig_r"]}, "sync")
        labels.add("emit_renamed_with_waiter")
    if kind == "mapgraph" and mapped_pos is None:
        cands = [j for j in range(n_in) if j not in defaults_by_pos and j != bound_pos] or [0]
        mapped_pos = cands[case["map_param"] % len(cands)]
        node = node.map_over(cur_in[slot_orig.index(mapped_pos)], mode=case["map_mode"])

    eff_defaults = dict(defaults_by_pos)
    if bound_pos is not None:
        eff_defaults[bound_pos] = ("ibound", orig[bound_pos])
    # model in slot order (slot i of the node's input tuple holds original parameter slot_orig[i])
    slot_defaults = {i: eff_defaults[slot_orig[i]] for i in range(n_in) if slot_orig[i] in eff_defaults}
    slot_types = [types_by_pos[slot_orig[i]] for i in range(n_in)]
    _check_static(node, case2, cur_in, cur_out, name, slot_defaults, slot_types, kind)

    # ---- execution through a runner
    supplied = {}
    cur_of_pos = {slot_orig[i]: cur_in[i] for i in range(n_in)}
    supply_all = kind == "func" and bool(case.get("cached")) and set(cur_in0) == set(cur_in) and cur_in0 != cur_in  # permuted names: see below
    for pos in range(n_in):
        if pos not in eff_defaults or case["supply"][pos] or supply_all:
            supplied[cur_of_pos[pos]] = ("val", pos)
    want_args = tuple(supplied.get(cur_of_pos[pos], eff_defaults.get(pos)) for pos in range(n_in))
    if kind in ("ifelse", "route"):
        extra = [make_node(ctx, {"k": "func", "name": t, "params": [], "defaults": {}, "outs": [f"o_{t}"]}, "sync") for t in ("ta", "tb")]
        g = Graph([node, *extra] + ([waiter] if waiter is not None else []))
        out = run_sync(g, supplied)
    elif kind == "interrupt":
        g = Graph([node] + ([waiter] if waiter is not None else []))
        out = run_async(g, supplied)
    elif kind == "mapgraph":
        items = [("item", j) for j in range(case["nitems"])]
        supplied[cur_of_pos[mapped_pos]] = items
        g = Graph([node])
        out = run_sync(g, supplied)
    else:
        from hypergraph import SyncRunner
        from hypergraph.cache import InMemoryCache

        shared_runner = SyncRunner(cache=InMemoryCache())  # the receiver is re-run on the SAME runner object (and cache) below
        g = Graph([node] + ([waiter] if waiter is not None else []))
        out = run_sync(g, supplied, runner=shared_runner)
    if out.status != "completed":
        raise Violation("c06.run_failed", f"[{kind}] run with {J(supplied)} gave {out.brief()}; inputs={cur_in} history={J(hist)}", kind_of_node=kind)
    if waiter is not None and not ctx.calls("waiter"):
        raise Violation("c06.renamed_signal_not_produced", f"[{kind}] the node's signal was renamed sig_e -> sig_r; a node waiting for 'sig_r' never ran (result {J(out.values)})", kind_of_node=kind)
    calls = ctx.calls(fid)
    if kind == "mapgraph":
        items = supplied[cur_of_pos[mapped_pos]]
        want_calls = [tuple(it if i == mapped_pos else want_args[i] for i in range(n_in)) for it in items]
        if calls != want_calls:
            raise Violation("c06.map_follows_rename", f"mapped over original parameter #{mapped_pos} (now {cur_of_pos[mapped_pos]!r}); calls {J(calls)} expected {J(want_calls)}; history={J(hist)}")
        for j, o in enumerate(cur_out[:n_out]):
            want = [(fid, j, a) for a in want_calls]
            if out.values.get(o) != want:
                raise Violation("c06.map_outputs", f"output {o!r}: {J(out.values.get(o))} expected {J(want)}")
        labels.add("map_over")
    else:
        if not calls or calls[-1] != want_args:
            raise Violation("c06.args", f"[{kind}] function received {J(calls)}, expected {J(want_args)} for supplied {J(supplied)}; inputs={cur_in} history={J(hist)}", kind_of_node=kind)
        if kind in ("func", "graph"):
            for j, o in enumerate(cur_out[:n_out]):
                if out.values.get(o) != (fid, j, want_args):
                    raise Violation("c06.output_value", f"[{kind}] output {o!r} = {J(out.values.get(o))}, expected {J((fid, j, want_args))}; outputs={cur_out} history={J(hist)}", kind_of_node=kind)
            extra_keys = set(out.values) - set(cur_out) - set(supplied) - {"w_out"}
            if extra_keys:
                raise Violation("c06.stale_output_name", f"[{kind}] result has names {sorted(extra_keys)} that are not current outputs {cur_out}")
        if kind == "interrupt":
            if out.values.get(cur_out[0]) != ("answer",):
                raise Violation("c06.output_value", f"[interrupt] {J(out.values)} expected answer under {cur_out[0]!r}", kind_of_node=kind)
    # ---- cacheable function node: the original node gets the SAME name -> value mapping on the same runner and cache
    if kind == "func" and case.get("cached") and hist and set(cur_in0) == set(cur_in) and n_out >= 1:
        cur0 = {slot_orig[i]: cur_in0[i] for i in range(n_in)}
        sup_same = {nm: v_ for nm, v_ in supplied.items()}
        want_same = tuple(sup_same.get(cur0[pos], eff_defaults.get(pos)) for pos in range(n_in))
    if kind == "func" and case.get("cached") and hist and set(cur_in0) == set(cur_in) and n_out >= 1 and all(pos in eff_defaults or cur0[pos] in sup_same for pos in range(n_in)):
        o_same = run_sync(Graph([node0]), sup_same, runner=shared_runner)
        outs0 = list(node0.outputs)[:n_out]
        want_v = {o: (fid, j, want_same) for j, o in enumerate(outs0)}
        if o_same.status != "completed" or {k_: (o_same.values or {}).get(k_) for k_ in want_v} != want_v:
            raise Violation("c06.cache_ignores_wiring", f"[func, cached] after the renamed copy (inputs {cur_in}) ran with {J(supplied)} on a runner with a cache, the ORIGINAL node (inputs {cur_in0}) run with the same "
                            f"mapping gave {o_same.brief()}, expected {J(want_v)}; history={J(hist)}", permuted=want_same != want_args)
        labels.add("cached_original_after_renamed_copy" + (":permuted_wiring" if want_same != want_args else ""))
    # ---- a renamed nested-graph node on the ASYNC runner, alone and wrapped once more (the wrapper around it renames nothing): the
    # values still arrive under the current output names
    if kind == "graph":
        for how in ("async", "async_wrapped_again"):
            ctx.reset()
            ga = Graph([node]) if how == "async" else Graph([Graph([node], name="midg").as_node(name="midw")])
            oa = run_async(ga, supplied)
            want_vals = {o: (fid, j, want_args) for j, o in enumerate(cur_out[:n_out])}
            if oa.status != "completed" or {k_: (oa.values or {}).get(k_) for k_ in want_vals} != want_vals or set(oa.values) - set(cur_out) - set(supplied) - {"w_out"}:
                raise Violation("c06.output_value", f"[graph, {how}] run with {J(supplied)} gave {oa.brief()}, expected {J(want_vals)}; outputs={cur_out} history={J(hist)}", kind_of_node=kind, how=how)
        labels.add("graph_node_async_and_wrapped_again")
        if hist:
            # ... and on ONE AsyncRunner object: the renamed wrapper first, then the original wrapper (same node name, same inner
            # graph, other input names) - nothing the runner remembered about the first may be applied to the second
            from hypergraph import AsyncRunner

            shared_async = AsyncRunner()
            ctx.reset()
            run_async(Graph([node]), supplied, runner=shared_async)
            cur0a = {slot_orig[i]: cur_in0[i] for i in range(n_in)}
            sup0a = {cur0a[pos]: ("val0", pos) for pos in range(n_in) if pos not in eff_defaults or case["supply"][pos]}
            want0a = tuple(sup0a.get(cur0a[pos], eff_defaults.get(pos)) for pos in range(n_in))
            ctx.reset()
            o0a = run_async(Graph([node0]), sup0a, runner=shared_async)
            c0a = ctx.calls(fid)
            if o0a.status != "completed" or not c0a or c0a[-1] != want0a:
                raise Violation("c06.receiver_behaviour_changed", f"[graph, one AsyncRunner] after the renamed wrapper (inputs {cur_in}) ran, the ORIGINAL wrapper (inputs {cur_in0}) run with {J(sup0a)} on the same "
                                f"runner gave {o0a.brief()} / calls {J(c0a)}, expected arguments {J(want0a)}; history={J(hist)}", kind_of_node=kind, shared_async_runner=True)
            labels.add("renamed_then_original_on_one_async_runner")
    # ---- the receiver of all those derivations, run under ITS names: nothing of the history may have reached it
    if case.get("rerun_receiver") and kind in ("func", "graph") and hist:
        cur0 = {slot_orig[i]: cur_in0[i] for i in range(n_in)}
        sup0 = {cur0[pos]: ("val0", pos) for pos in range(n_in) if pos not in eff_defaults or case["supply"][pos]}
        want0 = tuple(sup0.get(cur0[pos], eff_defaults.get(pos)) for pos in range(n_in))
        ctx.reset()
        out0 = run_sync(Graph([node0]), sup0, runner=shared_runner)
        calls0 = ctx.calls(fid)
        if kind == "func" and case.get("cached") and out0.status == "completed" and not calls0:
            # served from the runner's cache (legitimate when the very same arguments were seen before): judge the values
            calls0 = [want0] if all(out0.values.get(o) == (fid, j, want0) for j, o in enumerate(list(node0.outputs)[:n_out])) else []
        if out0.status != "completed" or not calls0 or calls0[-1] != want0:
            raise Violation("c06.receiver_behaviour_changed", f"[{kind}] after the history {J(hist)} the ORIGINAL node (inputs {cur_in0}) run with {J(sup0)} gave {out0.brief()} / calls {J(calls0)}, expected arguments {J(want0)}", kind_of_node=kind)
        labels.add("receiver_rerun")
    ev.case(case, interesting, sorted(labels))


def _part_b(case, ev):
    nodes = case["nodes"]
    sigma = case["sigma"]
    bind = T(case["bind"])
    required, optional, _ = ref.input_spec(nodes, bind, None)
    values = {p: ("in", p, 0) for p in required}
    if not case["omit_optional"]:
        for p in optional:
            values[p] = ("in", p, 1)
    env, args = ref.eval_dag(nodes, values, bind)
    ctx0 = Ctx()
    g0 = make_graph(ctx0, {"nodes": nodes, "bind": case["bind"]}, "sync")
    o0 = run_sync(g0, values)
    ctx1 = Ctx()
    ren_nodes = [{**n, "renames": case["renames"][n["name"]]} for n in nodes]
    try:
        g1 = make_graph(ctx1, {"nodes": ren_nodes, "bind": {sigma[k]: v for k, v in case["bind"].items()}}, "sync")
    except Exception as e:  # noqa: BLE001
        raise Violation("c06.alpha_rejected", f"alpha-renamed graph rejected: {type(e).__name__}: {str(e)[:300]}") from None
    o1 = run_sync(g1, {sigma[k]: v for k, v in values.items()})
    if o0.status != "completed" or o1.status != "completed":
        raise Violation("c06.alpha_run", f"original={o0.brief()} renamed={o1.brief()}")
    want = {sigma[k]: v for k, v in o0.values.items()}
    if o1.values != want or o0.values != env:
        raise Violation("c06.alpha_values", f"renamed graph returned {J(o1.values)}, original under the bijection {J(want)}")
    for n in nodes:
        a0, a1 = ctx0.calls(n["name"]), ctx1.calls(n["name"])
        if (a0[-1:] != a1[-1:]):
            raise Violation("c06.alpha_args", f"node {n['name']} received {J(a1[-1:])} in the renamed graph, {J(a0[-1:])} originally")
    for what in ("required", "optional"):
        if {sigma[p] for p in getattr(g0.inputs, what)} != set(getattr(g1.inputs, what)):
            raise Violation("c06.alpha_inputs", f"{what}: original {getattr(g0.inputs, what)} renamed {getattr(g1.inputs, what)} sigma={sigma}")
    nbatches = max((len(v) for v in case["renames"].values()), default=0)
    swaps = any(set(s["map"].values()) & set(s["map"].keys()) for v in case["renames"].values() for s in v if "map" in s)
    ev.case(case, nbatches >= 2 and (swaps or any(sigma[k] in sigma and sigma[k] != k for k in sigma)), ["alpha_renaming"] + (["alpha_swaps"] if swaps else []))


def _part_c(case, ev):
    from hypergraph import Graph

    ctx = Ctx()
    f = make_node(ctx, {"k": "func", "name": "f", "params": ["x", "rate"], "defaults": {}, "outs": ["y"]}, "sync")
    R = ("bound", "rate")
    inner = Graph([f], name="inner").bind(rate=R)
    new = case["new_name"]
    if new == "x":
        new = "fee"  # (the renamed copy must not take over the other input's name: that would merge two inputs)
    A = inner.as_node(name="A")
    B = inner.as_node(name="B")
    B = B.with_inputs(rate="tmp_r").with_inputs(tmp_r=new) if case["via_temp"] else B.with_inputs(rate=new)
    B = B.with_outputs(y="y2")
    mid = Graph([A, B] if case["order"] == 0 else [B, A], name="mid")
    R2 = ("outer", "rate")
    if case["outer_binds_inner_name"]:
        mid = mid.bind(rate=R2)  # the enclosing graph binds the INNER name itself: that is A's input, not B's
    g = mid
    for lv in range(case["levels"] - 1):
        g = Graph([g.as_node(name=f"lv{lv}")], name=f"g{lv}")
    tag = f"inner.bind(rate=..) used as A and as B.with_inputs(rate -> {new!r}{' via a temporary name' if case['via_temp'] else ''}), levels={case['levels']}, enclosing bind(rate)={case['outer_binds_inner_name']}"
    rate_A = R2 if case["outer_binds_inner_name"] else R
    rate_B = R
    if set(g.inputs.required) != {"x"} or not {"rate", new} <= set(g.inputs.optional):
        raise Violation("c06.bound_follows_rename", f"[{tag}] required={g.inputs.required} optional={g.inputs.optional}; expected required ('x',) and both 'rate' and {new!r} optional (bound)", what="spec")
    b = dict(mid.inputs.bound)
    if b.get("rate") is not rate_A or b.get(new) is not rate_B:
        raise Violation("c06.bound_follows_rename", f"[{tag}] the enclosing graph reports bound={J(b)}; expected rate -> {J(rate_A)} and {new} -> {J(rate_B)}", what="bound")
    vals = {"x": ("in", "x", 0)}
    if case["supply_new"]:
        vals[new] = ("in", new, 1)
        rate_B = vals[new]
    out = (run_sync if case["runner"] == "sync" else run_async)(g, vals)
    want = {"y": ("f", 0, (vals["x"], rate_A)), "y2": ("f", 0, (vals["x"], rate_B))}
    if out.status != "completed" or {k: v for k, v in out.values.items() if k in want} != want:
        raise Violation("c06.bound_follows_rename", f"[{tag}] {case['runner']} run with {J(vals)} gave {out.brief()}, expected {J(want)}", what="run")
    ev.case(case, True, ["part:C", f"levels:{case['levels']}", "inner_bound_graph_used_plain_and_renamed"])


def check_case(case, ev):
    if case.get("part") == "C":
        return _part_c(case, ev)
    if case["part"] == "A":
        _part_a(case, ev)
    else:
        _part_b(case, ev)
