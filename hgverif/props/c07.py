"""C07 - immutability: derivation operations never change the object they are called on.  DESIGN.md section 4/C07.

Stateful: a Hypothesis RuleBasedStateMachine builds a history of derivations over a growing pool of graphs and
nodes.  Every rule is recorded as a plain JSON op, so a failing history shrinks as one value and replays without
Hypothesis (`State.apply`).  After every step every object ever created is compared with its creation snapshot.
"""
from __future__ import annotations

from hypothesis import strategies as st
from hypothesis.stateful import RuleBasedStateMachine, initialize, invariant, rule

from .. import gen
from ..build import Ctx, J, T, make_graph, make_node
from ..core import Violation
from ..observe import run_async, run_sync

ID = "C07"
LEVEL = "exploration"
BUDGET = {"quick": 480, "thorough": 10000}
STEPS = {"quick": 25, "thorough": 50}
SHARDS = {"quick": 16, "thorough": 16}
RULE = (
    "Hypothesis rule-based state machine: a pool seeded with a generated graph (DAG or control-flow program) and its nodes; "
    "rules bind / unbind / select / with_entrypoint / add_nodes / as_node / Graph([node,...]) / with_name / with_inputs / "
    "with_outputs / map_over / run, each applied to a drawn pool member with drawn arguments; every result joins the pool so "
    "derivations chain and fork. After every step every object ever created must equal its creation snapshot: direct public "
    "attributes (inputs spec, bound keys and value identities, outputs, selection, entry points, definition hash, node names, "
    "rename-visible defaults/types, map config), the same attributes of a freshly derived copy (unbind() / with_inputs() with "
    "no arguments - recomputes everything cached), and the normal form of a run on canonical inputs; a derived object is never "
    "the receiver. Non-trivial = a history with >=3 derivations, a fork (two children of one parent) and a run between two derivations."
)
ASSUMPTIONS = ["add_nodes() without arguments returns self by documentation and is not generated"]

MAX_POOL = 28


def _canon_values(g):
    sp = g.inputs
    vals = {p: ("cv", p) for p in sp.required}
    for ps in sp.entrypoints.values():
        for p in ps:
            vals[p] = ("cv", p)
    kw = {}
    if len(sp.entrypoints) > 1:
        kw["entrypoint"] = sorted(sp.entrypoints)[0]
    return vals, kw


def _run_form(g, ctx, runners=None):
    vals, kw = _canon_values(g)
    ctx.reset()
    sr, ar = runners or (None, None)
    if g.has_async_nodes or g.has_interrupts:
        out = run_async(g, vals, runner=ar, max_iterations=12, error_handling="continue", **kw)
    else:
        out = run_sync(g, vals, runner=sr, max_iterations=12, error_handling="continue", **kw)
    calls = sorted(repr(x) for x in ctx.log)
    err = None if out.error is None else type(out.error).__name__
    form = (out.status, repr(sorted((k, repr(v)) for k, v in (out.values or {}).items())), err, tuple(calls))
    # the same object under a RUN-TIME selection (first output), once with what graph.select(that) reports as needed and once
    # with the first of those names withheld: relatives that differ in bindings must not answer for one another
    outs = list(g.outputs)
    if outs and not g.has_cycles:
        sel = [outs[0]]
        try:
            gs = g.select(*sel)
            v2, kw2 = _canon_values(gs)
        except Exception as e:  # noqa: BLE001
            return form + (("rt_select_rejected", type(e).__name__),)
        runner_fn, rn = (run_async, ar) if (g.has_async_nodes or g.has_interrupts) else (run_sync, sr)
        ctx.reset()
        o2 = runner_fn(g, v2, runner=rn, max_iterations=12, error_handling="continue", select=sel, **kw2)
        rt = [(o2.status, repr(sorted((k, repr(v)) for k, v in (o2.values or {}).items())), None if o2.error is None else type(o2.error).__name__)]
        req = list(gs.inputs.required)
        if req:
            v3 = {k: v for k, v in v2.items() if k != req[0]}
            ctx.reset()
            o3 = runner_fn(g, v3, runner=rn, max_iterations=12, error_handling="continue", select=sel, **kw2)
            rt.append((o3.status, None if o3.error is None else type(o3.error).__name__, len(ctx.log)))
        form = form + (tuple(rt),)
    return form


def _graph_attrs(g, by_value=False):
    sp = g.inputs
    return {
        "required": tuple(sp.required), "optional": tuple(sp.optional), "entrypoints": {k: tuple(v) for k, v in sp.entrypoints.items()},
        "bound": {k: (repr(v) if by_value else id(v)) for k, v in sp.bound.items()}, "outputs": tuple(g.outputs), "selected": g.selected,
        "entry_cfg": g.entrypoints_config, "hash": g.definition_hash, "nodes": tuple(g.nodes), "name": g.name,
        "cycles": g.has_cycles, "leaf": tuple(g.leaf_outputs),
    }


def _node_attrs(n):
    d = {"name": n.name, "inputs": tuple(n.inputs), "outputs": tuple(n.outputs), "hash": n.definition_hash,
         "defaults": {p: repr(n.get_default_for(p)) for p in n.inputs if n.has_default_for(p)},
         "types": {p: repr(n.get_input_type(p)) for p in n.inputs}, "wait_for": tuple(n.wait_for), "data_outputs": tuple(n.data_outputs)}
    d["map"] = repr(getattr(n, "map_config", None))
    d["clone"] = repr(getattr(n, "_clone", None))  # map_over(clone=...) has no public accessor; absent attribute -> None on both sides
    if hasattr(n, "targets"):
        d["targets"] = repr(n.targets)
    return d


class Obj:
    def __init__(self, kind, obj, parent, how, rebuild=None, parents=()):
        self.kind, self.obj, self.parent, self.how = kind, obj, parent, how
        self.snap = None
        self.rebuild = rebuild  # (list of rebuilt parent objects, ctx) -> the same derivation applied to pristine parents
        self.parents = list(parents)


class State:
    """The system under test plus the pool; `apply(op)` is used both by the machine and by replay."""

    def __init__(self):
        from hypergraph import AsyncRunner, SyncRunner

        self.ctx = Ctx(compact=True)
        self.runners = (SyncRunner(), AsyncRunner())  # shared by every run of the history
        self.pool: list[Obj] = []
        self.trace: list = []
        self.derivations = 0
        self.children: dict = {}
        self.run_between = False
        self.last_was_run = False
        self.labels: set = set()
        self.fresh = 0

    # ---- snapshots
    def snapshot(self, o: Obj, with_run=True):
        if o.kind == "graph":
            g = o.obj
            s = {"direct": _graph_attrs(g)}
            probe = g.unbind()
            if probe is g:
                raise Violation("c07.same_object", f"unbind() returned the receiver ({o.how})")
            s["probe"] = _graph_attrs(probe)
            if with_run:
                s["run"] = _run_form(probe, self.ctx, self.runners)
        else:
            n = o.obj
            s = {"direct": _node_attrs(n)}
            probe = n.with_inputs()
            if probe is n:
                raise Violation("c07.same_object", f"with_inputs() returned the receiver ({o.how})")
            s["probe"] = _node_attrs(probe)
        return s

    def add(self, kind, obj, parent, how, rebuild=None, parents=None):
        if len(self.pool) >= MAX_POOL:
            return None
        o = Obj(kind, obj, parent, how, rebuild, parents if parents is not None else ([parent] if parent is not None else []))
        o.snap = self.snapshot(o)
        self.pool.append(o)
        if parent is not None:
            self.children.setdefault(parent, []).append(len(self.pool) - 1)
            self.derivations += 1
            if self.last_was_run:
                self.run_between = True
        return o

    def check_all(self, with_run):
        for idx, o in enumerate(self.pool):
            now = self.snapshot(o, with_run=with_run)
            for part in now:
                if now[part] != o.snap[part]:
                    diff = {k: (o.snap[part][k], now[part][k]) for k in now[part] if now[part][k] != o.snap[part].get(k)} if isinstance(now[part], dict) else (o.snap[part], now[part])
                    raise Violation(
                        "c07.changed",
                        f"object #{idx} ({o.kind}, created by {o.how}) changed in its '{part}' view after op {J(self.trace[-1] if self.trace else None)}: (before, after) {diff}",
                        part=part, kind_of_object=o.kind,
                    )

    # ---- helpers
    def _pick(self, kind, i):
        c = [k for k, o in enumerate(self.pool) if o.kind == kind]
        return c[i % len(c)] if c else None

    def _pick_graphnode(self, i):
        from hypergraph.nodes.graph_node import GraphNode

        c = [k for k, o in enumerate(self.pool) if o.kind == "node" and isinstance(o.obj, GraphNode)]
        return c[i % len(c)] if c else None

    # ---- operations
    def apply(self, op):
        self.trace.append(op)
        k = op["op"]
        was_run = False
        try:
            getattr(self, "op_" + k)(op)
            was_run = k == "run"
        except Violation:
            raise
        except Exception as e:  # noqa: BLE001 - a rejected derivation creates nothing; the receiver must still be unchanged
            self.labels.add("rejected:" + type(e).__name__)
        self.last_was_run = was_run
        self.check_all(with_run=(len(self.trace) % 4 == 0) or k in ("run",))
        if len(self.trace) % 6 == 0:
            self.check_isolation()

    def op_init(self, op):
        spec = {"nodes": op["nodes"], "name": None if op.get("anon") else "root"}  # unnamed graphs are legal (as_node then needs a name)
        g = make_graph(self.ctx, spec, "sync")
        self.add("graph", g, None, "init", rebuild=lambda ps, ctx: make_graph(ctx, spec, "sync"), parents=[])
        for k, n in enumerate(list(g.nodes.values())[:4]):
            self.add("node", n, None, "init-node", rebuild=(lambda ps, ctx, k=k: list(ps[0].nodes.values())[k]), parents=[0])

    def _derive(self, src_idx, fn, kind, how):
        """fn(receiver) performs the derivation; it is kept so the same derivation can be replayed on a pristine twin."""
        src = self.pool[src_idx].obj
        new = fn(src, self.ctx)
        if new is src:
            raise Violation("c07.same_object", f"{how} returned the receiver itself")
        self.add(kind, new, src_idx, how, rebuild=lambda ps, ctx: fn(ps[0], ctx))

    def op_bind(self, op):
        i = self._pick("graph", op["g"])
        if i is None:
            return
        g = self.pool[i].obj
        names = list(g.inputs.all)
        if not names:
            return
        chosen = {names[j % len(names)] for j in op["names"]}
        vals = {n: ("b", n, op["tag"]) for n in chosen}
        self._derive(i, lambda r, c=None: r.bind(**vals), "graph", f"bind({sorted(chosen)})")

    def op_unbind(self, op):
        i = self._pick("graph", op["g"])
        if i is None:
            return
        g = self.pool[i].obj
        names = list(g.inputs.bound) or ["nothing_bound"]
        chosen = {names[j % len(names)] for j in op["names"]}
        self._derive(i, lambda r, c=None: r.unbind(*chosen), "graph", f"unbind({sorted(chosen)})")

    def op_select(self, op):
        i = self._pick("graph", op["g"])
        if i is None:
            return
        g = self.pool[i].obj
        outs = list(g.outputs)
        if not outs:
            return
        chosen = list(dict.fromkeys(outs[j % len(outs)] for j in op["names"]))
        self._derive(i, lambda r, c=None: r.select(*chosen), "graph", f"select({chosen})")

    def op_entry(self, op):
        i = self._pick("graph", op["g"])
        if i is None:
            return
        g = self.pool[i].obj
        names = list(g.nodes)
        ep = names[op["n"] % len(names)]
        self._derive(i, lambda r, c=None: r.with_entrypoint(ep), "graph", f"with_entrypoint({ep})")

    def op_add_nodes(self, op):
        i = self._pick("graph", op["g"])
        if i is None:
            return
        g = self.pool[i].obj
        self.fresh += 1
        avail = list(g.outputs) + list(g.inputs.all)
        params = list(dict.fromkeys(avail[j % len(avail)] for j in op["params"])) if avail else []
        spec = {"k": "func", "name": f"added{self.fresh}", "params": params, "defaults": {}, "outs": [f"ao{self.fresh}"]}
        if op.get("acc"):
            # the added node consumes its own output (an accumulator seeded by the caller): whether it is recognised as such must not
            # depend on what the receiver has been used for before
            spec["params"] = [f"ao{self.fresh}"] + params[:1]
        def fn(r, c):
            return r.add_nodes(make_node(c, spec, "sync"))

        self._derive(i, fn, "graph", f"add_nodes({spec['name']}{params})")

    def op_as_node(self, op):
        i = self._pick("graph", op["g"])
        if i is None:
            return
        g = self.pool[i].obj
        self.fresh += 1
        nm = f"gn{self.fresh}"
        self._derive(i, lambda r, c=None: r.as_node(name=nm), "node", "as_node")

    def op_graph_of(self, op):
        from hypergraph import Graph

        idxs = [self._pick("node", j) for j in op["nodes"]]
        idxs = [j for j in dict.fromkeys(idxs) if j is not None]
        if not idxs:
            return
        self.fresh += 1
        nm = f"built{self.fresh}"
        g = Graph([self.pool[j].obj for j in idxs], name=nm)
        self.add("graph", g, idxs[0], f"Graph(nodes {idxs})", rebuild=lambda ps, ctx: Graph(list(ps), name=nm), parents=idxs)

    def op_with_name(self, op):
        i = self._pick("node", op["n"])
        if i is None:
            return
        self.fresh += 1
        nm = f"renamed{self.fresh}"
        self._derive(i, lambda r, c=None: r.with_name(nm), "node", "with_name")

    def _batch(self, names, op, pool):
        if not names:
            return {}
        olds = list(dict.fromkeys(names[j % len(names)] for j in op["olds"]))
        cand = [x for x in dict.fromkeys(list(olds) + pool + list(names))]
        m = {}
        used = {x for x in names if x not in olds}
        for k, o in enumerate(olds):
            for t in range(len(cand)):
                c = cand[(op["rot"] + k + t) % len(cand)]
                if c not in used:
                    used.add(c)
                    if c != o:
                        m[o] = c
                    break
        return m

    def op_with_inputs(self, op):
        i = self._pick("node", op["n"])
        names_first = []
        if op.get("mapped"):
            # prefer a mapping graph node, and among its inputs the mapped / cloned ones (configuration that must follow a rename
            # on the NEW node only)
            c = [k for k, o in enumerate(self.pool) if o.kind == "node" and getattr(o.obj, "map_config", None) is not None]
            if c:
                i = c[op["n"] % len(c)]
                cfg = self.pool[i].obj.map_config[0]
                cl = getattr(self.pool[i].obj, "_clone", None)
                names_first = [x for x in (list(cl) if isinstance(cl, list) else []) + list(cfg) if x in self.pool[i].obj.inputs]
        if i is None:
            return
        n = self.pool[i].obj
        names = list(dict.fromkeys(names_first + list(n.inputs)))
        m = self._batch(names, op, ["ia", "ib", "ic"])
        if not m:
            return
        self._derive(i, lambda r, c=None: r.with_inputs(m), "node", f"with_inputs({m})")
        if isinstance(getattr(n, "_clone", None), list) and set(m) & set(n._clone):
            self.labels.add("renamed_a_cloned_input_of_a_mapping_node")
        if getattr(n, "map_config", None) is not None and set(m) & set(n.map_config[0]):
            self.labels.add("renamed_a_mapped_input_of_a_mapping_node")

    def op_with_outputs(self, op):
        i = self._pick("node", op["n"])
        if i is None:
            return
        n = self.pool[i].obj
        m = self._batch(list(n.data_outputs), op, ["oa", "ob", "oc"])
        if not m:
            return
        self._derive(i, lambda r, c=None: r.with_outputs(m), "node", f"with_outputs({m})")

    def op_map_over(self, op):
        i = self._pick_graphnode(op["n"])
        if i is None:
            return
        n = self.pool[i].obj
        if not n.inputs:
            return
        ps = list(dict.fromkeys(n.inputs[j % len(n.inputs)] for j in op["params"]))
        mode = op["mode"]
        if op.get("clone", 0) >= 2 and len(n.inputs) >= 2 and len(ps) >= len(n.inputs):
            ps = ps[:-1]  # leave a broadcast input that can be cloned
        rest = [x for x in n.inputs if x not in ps]
        clone = {0: False, 1: True}.get(op.get("clone", 0), rest[: 1 + op.get("clone", 0) % 2] if rest else True)
        self._derive(i, lambda r, c=None: r.map_over(*ps, mode=mode, clone=clone), "node", f"map_over({ps}, clone={clone})")
        if isinstance(clone, list):
            self.labels.add("map_over_with_clone_list")

    def op_nest_bound(self, op):
        """A graph holding [g.bind(p=...).as_node(), sibling(p)]: the binding lives INSIDE the nested graph and the sibling shares
        the parameter name (the shape in which a nested binding must not travel with later select / with_entrypoint derivations)."""
        from hypergraph import Graph

        i = self._pick("graph", op["g"])
        if i is None:
            return
        g = self.pool[i].obj
        names = [x for x in g.inputs.all if x not in g.inputs.bound]
        if not names:
            return
        pname = names[op["p"] % len(names)]
        self.fresh += 1
        k = self.fresh
        spec = {"k": "func", "name": f"sib{k}", "params": [pname], "defaults": {}, "outs": [f"so{k}"]}
        val = ("nb", pname, k)

        def fn(r, c):
            return Graph([r.bind(**{pname: val}).as_node(name=f"nb{k}"), make_node(c, spec, "sync")], name=f"nest{k}")

        self._derive(i, fn, "graph", f"nest_bound({pname})")

    def op_run(self, op):
        i = self._pick("graph", op["g"])
        if i is None:
            return
        _run_form(self.pool[i].obj, self.ctx, self.runners)

    # ---- non-interference: every object must equal the same derivation path replayed on pristine ancestors
    def _isolated(self, idx, memo, ctx):
        if idx in memo:
            return memo[idx]
        o = self.pool[idx]
        parents = [self._isolated(p, memo, ctx) for p in o.parents]
        memo[idx] = o.rebuild(parents, ctx)
        return memo[idx]

    def _view(self, kind, obj, ctx, runners=None):
        from hypergraph import Graph
        from hypergraph.nodes.gate import GateNode

        if kind == "graph":
            return {"attrs": _graph_attrs(obj, by_value=True), "run": _run_form(obj, ctx, runners)}
        v = {"attrs": _node_attrs(obj)}
        if not isinstance(obj, GateNode):
            try:
                g = Graph([obj])
            except Exception as e:  # noqa: BLE001
                v["graph"] = "rejected:" + type(e).__name__
            else:
                v["graph"] = {"attrs": _graph_attrs(g, by_value=True), "run": _run_form(g, ctx, runners)}
        return v

    def check_isolation(self):
        for idx, o in enumerate(self.pool):
            if o.rebuild is None:
                continue
            ctx2 = Ctx(compact=True)
            try:
                twin = self._isolated(idx, {}, ctx2)
            except Exception as e:  # noqa: BLE001
                raise Violation("c07.rebuild_failed", f"object #{idx} ({o.how}) cannot be re-derived from pristine ancestors: {type(e).__name__}: {e}") from None
            a = self._view(o.kind, o.obj, self.ctx, self.runners)
            b = self._view(o.kind, twin, ctx2)
            if a != b:
                diff = {k: (a[k], b[k]) for k in a if a[k] != b.get(k)}
                raise Violation("c07.influenced_by_relative", f"object #{idx} ({o.kind}, {o.how}) differs from the same derivation replayed on pristine ancestors: (in history, isolated) {str(diff)[:1500]}", kind_of_object=o.kind)

    # ---- evidence
    def nontrivial(self):
        fork = any(len(v) >= 2 for v in self.children.values())
        return self.derivations >= 3 and fork and self.run_between


_idx = st.integers(0, 40)
_names = st.lists(st.integers(0, 9), min_size=1, max_size=3)


def machine(tier, ev, holder, guarded):
    class Derivations(RuleBasedStateMachine):
        def __init__(self):
            super().__init__()
            self.s = State()
            holder["case"] = self.s.trace

        def _do(self, op):
            holder["case"] = self.s.trace
            guarded(self.s.trace, fn=lambda: self.s.apply(op))

        @initialize(nodes=st.one_of(gen.g1_nodes(2, 5).flatmap(gen.permuted), gen.g2_nodes(max_nodes=4, p_fail=0.0).map(lambda t: t[0])), anon=st.booleans())
        def init(self, nodes, anon):
            self._do({"op": "init", "nodes": nodes, "anon": anon})

        @rule(g=_idx, names=_names, tag=st.integers(0, 3))
        def bind(self, g, names, tag):
            self._do({"op": "bind", "g": g, "names": names, "tag": tag})

        @rule(g=_idx, names=_names)
        def unbind(self, g, names):
            self._do({"op": "unbind", "g": g, "names": names})

        @rule(g=_idx, names=_names)
        def select(self, g, names):
            self._do({"op": "select", "g": g, "names": names})

        @rule(g=_idx, n=_idx)
        def entry(self, g, n):
            self._do({"op": "entry", "g": g, "n": n})

        @rule(g=_idx, params=st.lists(st.integers(0, 9), max_size=2), acc=st.sampled_from([False, False, True]))
        def add_nodes(self, g, params, acc):
            self._do({"op": "add_nodes", "g": g, "params": params, "acc": acc})

        @rule(g=_idx)
        def as_node(self, g):
            self._do({"op": "as_node", "g": g})

        @rule(nodes=st.lists(_idx, min_size=1, max_size=3))
        def graph_of(self, nodes):
            self._do({"op": "graph_of", "nodes": nodes})

        @rule(n=_idx)
        def with_name(self, n):
            self._do({"op": "with_name", "n": n})

        @rule(n=_idx, olds=_names, rot=st.integers(0, 5), mapped=st.booleans())
        def with_inputs(self, n, olds, rot, mapped):
            self._do({"op": "with_inputs", "n": n, "olds": olds, "rot": rot, "mapped": mapped})

        @rule(n=_idx, olds=_names, rot=st.integers(0, 5))
        def with_outputs(self, n, olds, rot):
            self._do({"op": "with_outputs", "n": n, "olds": olds, "rot": rot})

        @rule(n=_idx, params=_names, mode=st.sampled_from(["zip", "product"]), clone=st.sampled_from([0, 1, 2, 2, 3, 3]))
        def map_over(self, n, params, mode, clone):
            self._do({"op": "map_over", "n": n, "params": params, "mode": mode, "clone": clone})

        @rule(g=_idx, p=st.integers(0, 9))
        def nest_bound(self, g, p):
            self._do({"op": "nest_bound", "g": g, "p": p})

        @rule(g=_idx)
        def run(self, g):
            self._do({"op": "run", "g": g})

        def teardown(self):
            if self.s.trace and not holder.get("violation"):
                labels = {"op:" + o["op"] for o in self.s.trace} | self.s.labels
                ev.case(self.s.trace, self.s.nontrivial(), sorted(labels))

    return Derivations


def check_case(case, ev):
    """Replay a recorded history without Hypothesis."""
    s = State()
    for op in case:
        s.apply(op)
    s.check_all(with_run=True)
    s.check_isolation()
    ev.case(case, s.nontrivial(), sorted({"op:" + o["op"] for o in case}))
