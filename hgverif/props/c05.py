"""C05 - composition: a nested graph behaves exactly like its nodes inlined.  DESIGN.md section 4/C05."""
from __future__ import annotations

from hypothesis import strategies as st

from .. import gen, ref
from ..build import Ctx, J, T, make_graph
from ..core import Violation
from ..gen import prob
from ..observe import run_async, run_sync

ID = "C05"
LEVEL = "exploration"
BUDGET = {"quick": 3600, "thorough": 40000}
SHARDS = {"quick": 16, "thorough": 16}
RULE = (
    "Hypothesis-generated acyclic program P (3-8 nodes) x an interval of its topological order (convex by construction) wrapped "
    "as a nested graph node, recursively to depth 1-3; the inner graph is built over a permutation of the name pool (inner names "
    "collide with unrelated outer names) and the wrapper's with_inputs/with_outputs history (single batch, through temporaries, "
    "staged, with identity swap detours) maps the boundary back to P's names; each binding placed at inner or outer level or "
    "both (outer wins); optional inner select; run-time values incl. overrides; both runners. Oracle: required/optional input "
    "sets equal those of the flat graph and of the reference classification; returned values equal the flat run and the "
    "reference evaluator on exposed names; every inner node's final arguments equal the reference; wrapper outputs equal the "
    "selected inner outputs. Non-trivial = the cut crosses an edge in each direction, or splits a multi-output node, or a "
    "default/binding sits on a boundary parameter."
)
ASSUMPTIONS = ["invocation counts are not compared (a wrapper with a defaulted boundary parameter may run twice)"]


@st.composite
def _siblings_case(draw):
    """Two or three SIBLING nested graphs; each binds, inside, an input that it calls by the same name `kshared` (to different
    values).  Flat equivalent: the bound parameters are simply different parameters."""
    topo = draw(gen.g1_nodes(4, 8, default_on_edge=0.0))
    outer, _wg = draw(gen.multi_nest(topo))
    prod = ref.producers(topo)
    flat_bind = {}
    ws = [w for w in outer if w["k"] == "graph"]
    for i, w in enumerate(ws):
        inner_names = {x["name"] for x in w["graph"]["nodes"]}
        own = [q for q in w["flat_inputs"] if q not in prod and not any(q in x["params"] for x in topo if x["name"] not in inner_names)
               and not any(q in x.get("defaults", {}) for x in topo)]
        if not own:
            # give the wrapper's first node a plain input of its own
            q = f"kw{i}"
            first = w["graph"]["nodes"][0]["name"]
            for x in topo:
                if x["name"] == first:
                    x["params"] = [q] + x["params"]
            w["graph"]["nodes"] = [({**x, "params": [q] + x["params"]} if x["name"] == first else x) for x in w["graph"]["nodes"]]
            w["flat_inputs"] = [q] + list(w["flat_inputs"])
        else:
            q = draw(st.sampled_from(own))
        # inside, the wrapper calls the input `kshared` too - or by a private name that the wrapper renames to `kshared`
        iname = f"kin{i}" if prob(draw, 0.5) else "kshared"
        w["graph"]["nodes"] = [{**x, "params": [iname if z == q else z for z in x["params"]]} for x in w["graph"]["nodes"]]
        w["graph"]["bind"] = {iname: ["ib", i]}
        if iname != "kshared":
            w["renames"] = list(w.get("renames", [])) + [{"kind": "inputs", "map": {iname: "kshared"}}]
        w["flat_inputs"] = ["kshared" if z == q else z for z in w["flat_inputs"]]
        flat_bind[q] = ["ib", i]
    return {"part": "siblings", "flat": topo, "nested": draw(gen.permuted(outer)), "flat_bind": flat_bind, "supply_shared": prob(draw, 0.25),
            "runner": draw(st.sampled_from(["sync", "async"]))}


@st.composite
def _case(draw, tier):
    if prob(draw, 0.15):
        return draw(_siblings_case())
    topo = draw(gen.g1_nodes(3, 8 if tier == "quick" else 10, p_const=0.15))  # incl. outputs whose value is None / falsy
    prod = ref.producers(topo)
    if prob(draw, 0.25):
        # an input that happens to be called like an option of run() (legal: inputs are passed in a dict)
        pure0 = sorted({p for n in topo for p in n["params"] if p not in prod})
        if pure0:
            old = draw(st.sampled_from(pure0))
            new = draw(st.sampled_from(["max_iterations", "select", "on_missing", "entrypoint", "values", "error_handling", "event_processors", "graph"]))
            for n in topo:
                n["params"] = [new if q == old else q for q in n["params"]]
                n["defaults"] = {(new if q == old else q): v for q, v in n.get("defaults", {}).items()}
    inputs = []
    for n in topo:
        for p in n["params"]:
            if p not in prod and p not in inputs:
                inputs.append(p)
    bind = {p: ["bound", p] for p in draw(gen.subset(inputs, 0.35))}
    depth = draw(st.sampled_from([1, 1, 2, 3]))
    outer, hidden, inactive = draw(gen.nest_spec(topo, depth, bind))
    wrapper = next(x for x in outer if x["k"] == "graph")
    inner_bound = set(wrapper["inner_bound_flat"])
    # a name bound inside is re-bound outside with a different value in half of the cases (outer wins), else left to the inner binding
    outer_bind = {}
    live = {p for n in topo if n["name"] not in inactive for p in n["params"]}
    for p, v in bind.items():
        if p not in live:
            continue  # only consumed by inner nodes that an inner select made inactive: not an input of the outer graph
        if p not in inner_bound:
            outer_bind[p] = v
        elif draw(st.booleans()):
            outer_bind[p] = ["rebound", p]
    for p in inner_bound:
        if p not in outer_bind:
            pass
    flat_bind = {p: (outer_bind[p] if p in outer_bind else ["inner", p]) for p in bind if p in outer_bind or p in inner_bound}
    # inner bindings carry a distinguishable value
    _mark_inner(wrapper, {p: ["inner", p] for p in inner_bound})
    # an inner select narrows what the wrapper needs: inner nodes outside the kept outputs' backward closure are inactive
    required, optional, _ = ref.input_spec(topo, flat_bind, None)
    values = {p: ["in", p, 0] for p in inputs if p in required}
    for p in inputs:
        if p not in values and prob(draw, 0.35):
            values[p] = ["in", p, 1]
    signal = False
    if not inactive and not hidden and prob(draw, 0.1) and not _any_select(wrapper):
        # an inner node emits an ordering signal and a node OUTSIDE the wrapper waits for it: the wrapper lists the signal among its
        # outputs, so the waiter must run after the wrapper exactly as it runs after the emitter in the flat graph
        inner_names = gen._func_names(wrapper)
        em = draw(st.sampled_from(sorted(inner_names)))
        for n in topo:
            if n["name"] == em:
                n["emit"] = ["sgx"]
        _add_emit(wrapper, em)
        wt = {"k": "func", "name": "wtr", "params": [], "defaults": {}, "outs": ["wtr_o"], "wait_for": ["sgx"]}
        topo = topo + [wt]
        outer = outer + [dict(wt)]
        signal = True
    return {"flat": draw(gen.permuted(topo)), "nested": draw(gen.permuted(outer)), "flat_bind": flat_bind, "outer_bind": outer_bind,
            "values": values, "hidden": hidden, "depth": depth, "inactive": inactive, "signal": signal,
            # a graph-level selection applied to the flat and to the nested graph alike (a selection does not stop other nodes from
            # running when their inputs happen to be there - the nested graph included)
            "outer_select": draw(st.lists(st.integers(0, 11), min_size=1, max_size=2)) if prob(draw, 0.4) else None}


def _any_select(w):
    return w["graph"].get("select") is not None or any(_any_select(x) for x in w["graph"]["nodes"] if x["k"] == "graph")


def _add_emit(w, em):
    """Mark inner function node `em` as emitting `sgx`; every wrapper on the way up lists the signal among its outputs."""
    for x in w["graph"]["nodes"]:
        if (x["k"] != "graph" and x["name"] == em) or (x["k"] == "graph" and _add_emit(x, em)):
            if x["k"] != "graph":
                x["emit"] = ["sgx"]
            w["flat_outputs"] = list(w["flat_outputs"]) + ["sgx"]
            return True
    return False


def _mark_inner(wrapper, marks):
    """Replace the inner binding values (keyed by inner names) by ['inner', flatname] so the source of a value is visible."""
    g = wrapper["graph"]
    flat_to_inner = {}
    # the inner name of flat input p is the key in gspec['bind'] whose value is ['bound', p]
    for k, v in list(g.get("bind", {}).items()):
        if isinstance(v, list) and v[:1] == ["bound"] and v[1] in marks:
            g["bind"][k] = marks[v[1]]


def strategy(tier):
    return _case(tier)


def _all_func_nodes(nodes):
    for n in nodes:
        if n["k"] == "graph":
            yield from _all_func_nodes(n["graph"]["nodes"])
        else:
            yield n


def _check_siblings(case, ev):
    flat, fb = case["flat"], case["flat_bind"]
    labels = {"part:siblings", f"wrappers_binding_kshared:{len(fb)}"}
    if any(w.get("renames") for w in case["nested"] if w["k"] == "graph"):
        labels.add("bound_input_renamed_to_the_shared_name")
    required, _opt, _ = ref.input_spec(flat, T(fb), None)
    values = {q: ("in", q, 0) for q in required}
    fbind = T(fb)
    supplied_shared = case["supply_shared"] and len(fb) >= 1
    if supplied_shared:
        # the caller supplies the shared name: every wrapper that takes it gets the caller's value
        fbind = {q: ("in", "kshared", 0) for q in fb}
        labels.add("shared_name_supplied")
    env, _args = ref.eval_dag(flat, values, fbind)
    ctx = Ctx()
    try:
        g = make_graph(ctx, {"nodes": case["nested"]}, "sync")
    except Exception as e:  # noqa: BLE001
        raise Violation("c05.nested_rejected", f"sibling nested graphs binding the same input name were rejected: {type(e).__name__}: {str(e)[:300]}", etype=type(e).__name__) from None
    nvals = dict(values)
    if supplied_shared:
        nvals["kshared"] = ("in", "kshared", 0)
    out = (run_sync if case["runner"] == "sync" else run_async)(g, nvals)
    if out.status != "completed":
        raise Violation("c05.not_completed", f"[siblings {case['runner']}] {out.brief()}")
    if out.values != env:
        diff = {k: (J(out.values.get(k, "<absent>")), J(env.get(k, "<absent>"))) for k in set(out.values) | set(env) if out.values.get(k, "<absent>") != env.get(k, "<absent>")}
        raise Violation("c05.values", f"[siblings {case['runner']}; each wrapper binds its own 'kshared': {J(fb)}] (nested, reference): {diff}", siblings=True)
    ev.case(case, len(fb) >= 2, sorted(labels))


def check_case(case, ev):
    if case.get("part") == "siblings":
        return _check_siblings(case, ev)
    flat_nodes = case["flat"]
    values = T(case["values"])
    fbind = T(case["flat_bind"])
    env, args = ref.eval_dag(flat_nodes, values, fbind)
    required, optional, active = ref.input_spec(flat_nodes, fbind, None, drop=case["inactive"])
    hidden = set(case["hidden"])
    labels = {f"depth:{case['depth']}"}
    wrapper = next(x for x in case["nested"] if x["k"] == "graph")
    if any(st_["kind"] == "inputs" for st_ in wrapper.get("renames", [])) or any(st_["kind"] == "outputs" for st_ in wrapper.get("renames", [])):
        labels.add("wrapper_renamed")
    if wrapper["graph"].get("bind"):
        labels.add("inner_binding")
    if wrapper["graph"].get("select") is not None:
        labels.add("inner_select")
    if any(p in case["outer_bind"] and case["flat_bind"][p][0] == "rebound" for p in case["flat_bind"]):
        labels.add("rebound_outside")
    if case.get("signal"):
        labels.add("inner_signal_awaited_outside")

    ctx_f = Ctx()
    gf = make_graph(ctx_f, {"nodes": flat_nodes, "bind": case["flat_bind"]}, "sync")
    ctx_n = Ctx()
    try:
        gn = make_graph(ctx_n, {"nodes": case["nested"], "bind": case["outer_bind"]}, "sync")
    except Exception as e:  # noqa: BLE001
        raise Violation("c05.nested_rejected", f"nested form of a valid flat graph was rejected: {type(e).__name__}: {str(e)[:300]} nested={J(case['nested'])}", etype=type(e).__name__) from None
    # --- input specification
    for what, want in (("required", required), ("optional", optional)):
        got_n = set(getattr(gn.inputs, what))
        got_f = set(getattr(gf.inputs, what)) if not case["inactive"] else got_n
        if got_n != got_f or got_n != want:
            raise Violation("c05.input_spec", f"{what}: nested={sorted(got_n)} flat={sorted(got_f)} reference={sorted(want)}", what=what)
    # --- wrapper outputs
    real_wrapper = next(n for n in gn.nodes.values() if n.name == wrapper["name"])
    if set(real_wrapper.outputs) != set(wrapper["flat_outputs"]):
        raise Violation("c05.wrapper_outputs", f"wrapper exposes {real_wrapper.outputs}, expected {wrapper['flat_outputs']}")
    if set(real_wrapper.inputs) != set(wrapper["flat_inputs"]):
        raise Violation("c05.wrapper_inputs", f"wrapper takes {real_wrapper.inputs}, expected {wrapper['flat_inputs']}")

    exposed = {k: v for k, v in env.items() if k not in hidden}
    for runner in ("sync", "async"):
        ctx_f.reset()
        ctx_n.reset()
        run = run_sync if runner == "sync" else run_async
        of = run(gf, values)
        on = run(gn, values)
        if of.status != "completed" or on.status != "completed":
            raise Violation("c05.not_completed", f"[{runner}] flat={of.brief()} nested={on.brief()}")
        fvals = {k: v for k, v in of.values.items() if k not in hidden}
        if on.values != fvals or on.values != exposed:
            keys = set(on.values) | set(fvals) | set(exposed)
            diff = {k: (J(on.values.get(k, "<absent>")), J(fvals.get(k, "<absent>")), J(exposed.get(k, "<absent>"))) for k in keys
                    if not (on.values.get(k, "<absent>") == fvals.get(k, "<absent>") == exposed.get(k, "<absent>"))}
            if case.get("signal") and set(diff) == {"wtr_o"} and "wtr_o" not in on.values and "wtr_o" in fvals:
                raise Violation("c05.values", f"[{runner}] the node outside the wrapper that waits for a signal emitted inside never ran (it runs in the flat graph): {diff}",
                                what="waiter_of_inner_signal_never_ran")
            raise Violation("c05.values", f"[{runner}] (nested, flat, reference): {diff}")
        for n in _all_func_nodes(case["nested"]):
            if n["name"] not in active:
                continue  # outside the selection's backward closure: may be unable to run inside the narrowed wrapper
            want = args.get(n["name"])
            calls = ctx_n.calls(ref.fid(n))
            if want is None:
                if calls:
                    raise Violation("c05.ran_unsatisfiable", f"[{runner}] {n['name']} ran with {J(calls)}")
            elif not calls or calls[-1] != want:
                raise Violation("c05.inner_args", f"[{runner}] node {n['name']} last args {J(calls[-1] if calls else None)} expected {J(want)}")

    # --- the same graph-level selection on both forms
    if case.get("outer_select") and exposed:
        names = sorted(exposed)
        S_ = list(dict.fromkeys(names[i % len(names)] for i in case["outer_select"]))
        try:
            gfs, gns = gf.select(*S_), gn.select(*S_)
        except Exception as e:  # noqa: BLE001
            raise Violation("c05.select_rejected", f"select({S_}) rejected: {type(e).__name__}: {str(e)[:200]}") from None
        # (the wrapper is ONE unit of scoping: selecting one of its outputs keeps all of it in scope, so the nested form may need
        # more inputs than the flat one - by design; what is compared is what the two forms return)
        if not case["inactive"]:
            for runner in ("sync", "async"):
                run = run_sync if runner == "sync" else run_async
                of = run(gfs, {k: v for k, v in values.items() if k in set(gfs.inputs.all)})
                # (a binding made inside a wrapper that the selection puts out of scope does not serve outside nodes: the caller
                # supplies that value then)
                on = run(gns, {**{k: fbind[k] for k in gns.inputs.required if k in fbind}, **{k: v for k, v in values.items() if k in set(gns.inputs.all)}})
                if of.status != on.status or of.values != on.values:
                    raise Violation("c05.values", f"[{runner}, both forms under select({S_})] nested={on.brief()} flat={of.brief()}", selected=True)
            labels.add("graph_level_select_on_both_forms")
    # --- non-triviality: what the cut crosses
    S = {n["name"] for n in _all_func_nodes([wrapper])}
    prod = ref.producers(flat_nodes)
    into = out_of = split = boundary_fallback = False
    for n in flat_nodes:
        for p in n["params"]:
            if p in prod:
                a, b = prod[p]["name"] in S, n["name"] in S
                into |= (not a and b)
                out_of |= (a and not b)
            elif n["name"] in S and (p in n.get("defaults", {}) or p in fbind):
                boundary_fallback = True
    for n in flat_nodes:
        if n["name"] in S and len(n["outs"]) >= 2:
            users_in = {o for o in n["outs"] for m in flat_nodes if o in m["params"] and m["name"] in S}
            users_out = {o for o in n["outs"] for m in flat_nodes if o in m["params"] and m["name"] not in S}
            split |= bool(users_in) and bool(users_out)
    if into and out_of:
        labels.add("cut_crossed_both_ways")
    if split:
        labels.add("multi_output_split")
    if boundary_fallback:
        labels.add("fallback_on_boundary")
    ev.case(case, (into and out_of) or split or boundary_fallback, sorted(labels))
