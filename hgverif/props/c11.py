"""C11 - errors surface unwrapped; partial results are exactly the completed work.  DESIGN.md section 4/C11.  (fault enumeration)"""
from __future__ import annotations

import asyncio
import itertools

from hypothesis import strategies as st

from .. import gen, ref
from ..build import Ctx, Injected, J, T, make_graph
from ..core import Violation
from ..gen import prob
from ..observe import run_async, run_sync
from ..sched import run_scheduled
from ..observe import arun as _arun

ID = "C11"
LEVEL = "fault_enumeration"
BUDGET = {"quick": 480, "thorough": 8000}
SHARDS = {"quick": 16, "thorough": 16}
RULE = (
    "Hypothesis-generated acyclic programs (3-7 nodes), optionally with an interval nested to depth 1-3 and optionally wrapped "
    "in a mapping graph node / run through runner.map; fault enumeration: EVERY node in turn is made to raise its pre-allocated "
    "exception object (and every pair of nodes that share a superstep), under error_handling raise and continue, on SyncRunner, "
    "AsyncRunner and AsyncRunner with suspending node bodies under a drawn completion schedule, with and without a select / "
    "on_missing setting. Oracle: raise mode surfaces that very object (identity) through any nesting depth and through map; "
    "continue mode returns FAILED carrying it; every partial value equals the output of the last completed invocation of its "
    "producer in this run's own call log (per graph level: a wrapper containing the failing leaf is the failing node there); "
    "outputs of the failing node and of its single-shot descendants are absent; outputs of every single-shot node of an earlier "
    "dependency level are present with the reference value. Non-trivial = the failing node has an ancestor and a descendant, or "
    "lies inside a nested graph."
)
ASSUMPTIONS = [
    "a descendant with a fallback (default/bound/run-time value) on an upstream-fed parameter may legitimately have completed early; only its value, not its absence, is checked",
    "errors from interrupt handlers and invalid gate decisions are wrapped by design and not generated here",
]


@st.composite
def _case(draw, tier):
    if prob(draw, 0.15):
        # Part L: a while-loop whose first body node fails in iteration t >= 2 (errors collected): the FAILED result holds exactly
        # what the iterations before it completed
        k = draw(st.integers(1, 3))
        step = draw(st.sampled_from([1, 2]))
        start = draw(st.integers(0, 3))
        iters = draw(st.integers(2, 6))
        return {"part": "L", "loop": {"k": k, "form": "while", "gate": draw(st.sampled_from(["ifelse", "route"])), "exit": "END", "dopen": draw(st.booleans()), "limit": start + iters * step,
                                      "step": step, "start": start, "limit_input": draw(st.booleans()), "step_input": False, "acc": False, "nested": False, "limit_off": 0, "entry": 0},
                "t": draw(st.integers(2, iters)), "order": draw(st.lists(st.integers(0, 9), min_size=10, max_size=10)), "sched": draw(st.lists(st.integers(0, 5), max_size=30)),
                # what fails: the first body node, or the GATE itself (a route gate with a fallback, raising a ValueError / TypeError
                # subclass from its routing function); a pass-through node hands the caller's own seed object round the loop
                "fail_gate": draw(st.sampled_from([None, None, "value", "type"])), "passthrough": draw(st.booleans())}
    topo = draw(gen.g1_nodes(3, 7, p_const=0.15))  # incl. completed outputs whose value is None / falsy
    depth = draw(st.sampled_from([0, 0, 1, 2, 3]))
    if depth:
        outer, hidden, inactive = draw(gen.nest_spec(topo, depth, {}, permute_names=draw(st.booleans())))
        nodes = draw(gen.permuted(outer))
    else:
        nodes, hidden, inactive = draw(gen.permuted(topo)), [], []
    prod = ref.producers(topo)
    inputs = list(dict.fromkeys(p for n in topo for p in n["params"] if p not in prod))
    mapped = None
    if inputs and prob(draw, 0.3):
        mapped = {"param": draw(st.sampled_from(inputs)), "n": draw(st.integers(1, 3)), "via": draw(st.sampled_from(["runner.map", "map_over"]))}
    return {"topo": topo, "nodes": nodes, "depth": depth, "hidden": hidden, "inactive": inactive, "mapped": mapped,
            "sched": draw(st.lists(st.integers(0, 7), max_size=40)),
            "select": draw(st.booleans()), "on_missing": draw(st.sampled_from(["ignore", "warn", "error"])),
            "pair_pick": draw(st.integers(0, 20)),
            # the class of the exception the node body raises: a custom class, or a subclass of a built-in one that library code
            # might itself catch (TypeError from a call, KeyError from a lookup, ...)
            "fail_exc": draw(st.sampled_from(["plain", "plain", "type", "key", "value", "runtime"])),
            "fail_chained": prob(draw, 0.35),  # the failing body uses `raise X from low_level_error`
            # a nested graph that PAUSES at an interrupt in the first superstep, listed after a failing source node of that step
            "pausing_sibling": prob(draw, 0.25)}


def strategy(tier):
    return _case(tier)


FAIL_EXC = [None]  # set per case
FAIL_CHAINED = [False]


def _with_fail(nodes, failing, per_args=False):
    out = []
    for n in nodes:
        if n["k"] == "graph":
            g = dict(n["graph"])
            g["nodes"] = _with_fail(g["nodes"], failing, per_args)
            out.append({**n, "graph": g})
        elif n["name"] in failing:
            out.append({**n, "fail": "always", "fail_exc": FAIL_EXC[0], **({"fail_per_args": True} if per_args else {}), **({"fail_chained": True} if FAIL_CHAINED[0] else {})})
        else:
            out.append(n)
    return out


def _level(nodes, topo=None):
    """Top-level view: wrappers as atomic nodes with their boundary names; inner fallbacks conservatively propagated.
    Inner specs may carry permuted names, so defaults are read from the flat program by node name."""
    flat = {n["name"]: n for n in (topo or [])}
    lvl = []
    for x in nodes:
        if x["k"] == "graph":
            inner_defaults = {}
            for y in _funcs([x]):
                inner_defaults.update(flat.get(y["name"], y).get("defaults", {}))
            lvl.append({"k": "func", "name": x["name"], "params": list(x["flat_inputs"]), "outs": list(x["flat_outputs"]),
                        "defaults": {p: 1 for p in x["flat_inputs"] if p in inner_defaults}, "_inner": [y["name"] for y in _funcs([x])]})
        else:
            lvl.append(x)
    return lvl


def _funcs(nodes):
    for n in nodes:
        if n["k"] == "graph":
            yield from _funcs(n["graph"]["nodes"])
        else:
            yield n


def _check_failed(tag, case, out, ctx, failing, selected, env, args, values, mode, ev):
    """out: Outcome of a run in which the nodes `failing` raise."""
    objs = [ctx.injected[f] for f in failing if f in ctx.injected]
    if mode == "raise":
        if out.status != "raised":
            raise Violation("c11.not_raised", f"[{tag}] raise mode returned {out.brief()}", mode=mode)
        if not any(out.error is o for o in objs):
            raise Violation("c11.wrapped_or_other_error", f"[{tag}] raised {type(out.error).__name__}: {str(out.error)[:200]} (cause={type(out.error.__cause__).__name__ if out.error.__cause__ else None}) instead of the node's own exception object",
                            got=type(out.error).__name__)
        return
    if out.status != "failed":
        raise Violation("c11.not_failed_result", f"[{tag}] continue mode gave {out.brief()}", got=out.status)
    if not any(out.error is o for o in objs):
        raise Violation("c11.wrapped_or_other_error", f"[{tag}] FAILED result carries {type(out.error).__name__}: {str(out.error)[:200]} instead of the node's own exception object", got=type(out.error).__name__)
    failed_fid = out.error.fid
    nodes = case["nodes"]
    lvl = _level(nodes, case["topo"])
    by_out = {o: n for n in lvl for o in n["outs"]}
    ftop = next(n for n in lvl if n["name"] == failed_fid or failed_fid in n.get("_inner", []))
    depth = ref.depth(lvl)
    ss = ref.single_shot(lvl, values, {})
    desc = ref.descendants(lvl, {ftop["name"]})
    topo = case["topo"]
    flat_by_name = {n["name"]: n for n in topo}
    flat_prod = ref.producers(topo)
    # (1) every present value equals the last completed invocation of its producer in this run's log
    for k, v in out.values.items():
        if selected is not None and k not in selected:
            raise Violation("c11.unselected_key", f"[{tag}] partial values contain {k!r} outside select={selected}")
        if k in values and k not in by_out:
            continue
        if k not in flat_prod:
            raise Violation("c11.unknown_key", f"[{tag}] partial values contain {k!r} which no node produces")
        p = flat_prod[k]
        calls = ctx.calls(p["name"])
        if not calls:
            if k in values:
                continue
            raise Violation("c11.value_without_execution", f"[{tag}] partial value {k}={J(v)} but its producer {p['name']} never ran")
        want = ref.out_terms(p, calls[-1])[k]  # incl. nodes whose (single) output is a constant None / falsy value
        if v != want:
            raise Violation("c11.partial_value_wrong", f"[{tag}] partial {k}={J(v)}, last completed invocation of {p['name']} gives {J(want)}")
    # (2) nothing of the failing node, nothing of its single-shot descendants
    for o in ftop["outs"]:
        if o in out.values and o not in values:
            raise Violation("c11.failing_node_output_present", f"[{tag}] output {o!r} of the failing node {ftop['name']} is in the partial values: {J(out.values[o])}", nested=bool(ftop.get("_inner")))
    for n in lvl:
        if n["name"] in desc and n["name"] != ftop["name"] and n["name"] in ss:
            for o in n["outs"]:
                if o in out.values and o not in values:
                    raise Violation("c11.downstream_output_present", f"[{tag}] output {o!r} of {n['name']}, downstream of the failing node {ftop['name']}, is in the partial values")
    # (3) everything completed in earlier steps is present (the failing node's own step is only known when it cannot
    #     start early, i.e. when it is single-shot)
    for n in lvl:
        if ftop["name"] in ss and n["name"] in ss and n["name"] not in desc and depth[n["name"]] < depth[ftop["name"]]:
            inner = n.get("_inner", [n["name"]])
            if any(args.get(x) is None for x in inner if x not in case["inactive"]):
                continue  # not runnable in the reference
            if any(x in failing for x in inner):
                continue
            for o in n["outs"]:
                if o in case["hidden"] or (selected is not None and o not in selected):
                    continue
                if o not in out.values:
                    raise Violation("c11.earlier_value_missing", f"[{tag}] {o!r} of {n['name']} (dependency level {depth[n['name']]}) completed before the failing node {ftop['name']} (level {depth[ftop['name']]}) but is missing from the partial values {sorted(out.values)}",
                                    nested=bool(ftop.get("_inner")))
                if o in env and out.values[o] != env[o]:
                    raise Violation("c11.earlier_value_wrong", f"[{tag}] {o}={J(out.values[o])} expected {J(env[o])}")


def _part_loop(case, ev):
    from ..loops import eval_loop, loop_graph_spec, loop_values

    L, t = case["loop"], case["t"]
    step, start, k = L["step"], L["start"], L["k"]
    v = start + (t - 1) * step  # value of i when iteration t begins
    fail_gate = case.get("fail_gate")
    if fail_gate:
        L = {**L, "gate": "route"}
    gspec = loop_graph_spec(L, case["order"])
    failing = "g" if fail_gate else "b0"
    new_nodes = []
    for n in gspec["nodes"]:
        if n["name"] == failing:
            n = {**n, "fail": {"arg_in": [v]}}
            if fail_gate:
                n = {**n, "fail_exc": fail_gate, "targets": ["b0"], "fallback": "END", "expr": n["expr"].replace("else 'END'", "else None")}
        new_nodes.append(n)
    if case.get("passthrough"):
        new_nodes.append({"k": "func", "name": "zt", "params": ["z", "i"], "defaults": {}, "outs": ["z"], "expr": "z"})
    gspec = {**gspec, "nodes": new_nodes}
    vals = loop_values(L)
    want = {"i": v}
    if case.get("passthrough"):
        vals["z"] = ("seed-object",)
        want["z"] = vals["z"]  # handed through by a node that completed (several times): a value like any other
    for j in range(k - 1):
        want[f"t{j}"] = ("t", j, v - step)  # produced in iteration t-1; iteration t got no further than its failing first node
    for runner in ("sync", "async", "sched"):
        ctx = Ctx()
        g = make_graph(ctx, gspec, "async" if runner == "sched" else "sync")
        kw = {"entrypoint": "b0"} if len(g.inputs.entrypoints) > 1 and "b0" in g.inputs.entrypoints else {}
        if runner == "sync":
            out = run_sync(g, vals, error_handling="continue", **kw)
        elif runner == "async":
            out = run_async(g, vals, error_handling="continue", **kw)
        else:
            out, _ = run_scheduled(ctx, g, vals, case["sched"], error_handling="continue", **kw)
        tag = f"{runner} continue, loop k={k} gate={L['gate']}: {'the route gate (with a fallback) raises a ' + fail_gate + ' error subclass' if fail_gate else 'b0 fails'} in iteration {t} (i={v})"
        if out.status != "failed" or out.error is not ctx.injected.get(failing):
            raise Violation("c11.not_failed_result", f"[{tag}] gave {out.brief()}", got=out.status, loop=True)
        got = {k_: v_ for k_, v_ in out.values.items() if k_ != "limit"}
        if got != want:
            diff = {k_: (J(got.get(k_, "<absent>")), J(want.get(k_, "<absent>"))) for k_ in set(got) | set(want) if got.get(k_, "<absent>") != want.get(k_, "<absent>")}
            raise Violation("c11.loop_partial_values", f"[{tag}] the iterations before it completed {J(want)}; the FAILED result holds (got, expected) {diff}", missing=any(k_ not in got for k_ in want), loop=True)
    ev.case(case, True, ["part:L", f"k:{k}", "failing_iteration>=2"] + (["failing_gate_with_fallback"] if fail_gate else []) + (["seed_object_handed_through"] if case.get("passthrough") else []))


def check_case(case, ev):
    if case.get("part") == "L":
        return _part_loop(case, ev)
    topo, nodes = case["topo"], case["nodes"]
    labels = {f"depth:{case['depth']}"}
    required, optional, _ = ref.input_spec(topo, {}, None, drop=case["inactive"])
    values = {p: ("in", p, 0) for p in required}
    env, args = ref.eval_dag(topo, values, {})
    values_b = {p: ("in", p, 1) for p in required}
    env_b, args_b = ref.eval_dag(topo, values_b, {})
    func_names = [n["name"] for n in topo if n["name"] not in case["inactive"] and args.get(n["name"]) is not None]
    lvl = _level(nodes, topo)
    depth = ref.depth(lvl)
    lvl_of = {}
    for n in lvl:
        for x in n.get("_inner", [n["name"]]):
            lvl_of[x] = n["name"]
    anc_desc = False
    nested_fail = False
    flat_pred = ref.data_preds(topo)
    flat_desc = {n["name"]: ref.descendants(topo, {n["name"]}) - {n["name"]} for n in topo}

    # which fault sets: every single node; pairs sharing a superstep
    singles = [(f,) for f in func_names]
    pairs = [(a, b) for a, b in itertools.combinations(func_names, 2) if lvl_of[a] != lvl_of[b] and depth[lvl_of[a]] == depth[lvl_of[b]]]
    if pairs:
        pairs = [pairs[case["pair_pick"] % len(pairs)], pairs[(case["pair_pick"] * 7 + 3) % len(pairs)]]
        labels.add("pair_same_step")
    sel_kw = {}
    if case["select"]:
        outs = [o for n in topo for o in n["outs"] if o not in case["hidden"]]
        if outs:
            sel_kw = {"select": outs[: max(1, len(outs) // 2)], "on_missing": case["on_missing"]}
            labels.add("select+" + case["on_missing"])

    mapped = case["mapped"]
    FAIL_EXC[0] = case.get("fail_exc")
    FAIL_CHAINED[0] = bool(case.get("fail_chained"))
    labels.add("raises:" + str(case.get("fail_exc") or "plain"))
    if FAIL_CHAINED[0]:
        labels.add("raised_from_an_explicit_cause")
    for failing in singles + pairs:
        fspec_nodes = _with_fail(nodes, set(failing))
        if any(flat_pred[f] and flat_desc[f] for f in failing):
            anc_desc = True
        if any(lvl_of[f] != f for f in failing):
            nested_fail = True
        for runner in ("sync", "async", "sched"):
            for mode in ("raise", "continue"):
                flavour = "async" if runner == "sched" else "sync"
                ctx = Ctx()
                g = make_graph(ctx, {"nodes": fspec_nodes}, flavour)
                tag = f"{runner} {mode} failing={failing}"
                kw = {"error_handling": mode}
                use_sel = dict(sel_kw) if len(failing) == 1 else {}
                if runner == "sync":
                    out = run_sync(g, values, **kw, **use_sel)
                elif runner == "async":
                    out = run_async(g, values, **kw, **use_sel)
                else:
                    out, _ = run_scheduled(ctx, g, values, case["sched"], **kw, **use_sel)
                    if out.status == "deadlock":
                        raise Violation("c11.deadlock", f"[{tag}] {out.error}")
                if use_sel:
                    # selection only filters what is returned; identity/absence rules still apply to what is there
                    if mode == "continue" and out.status == "raised":
                        raise Violation("c11.continue_raised", f"[{tag} select={use_sel}] continue mode raised {type(out.error).__name__}: {str(out.error)[:200]}", got=type(out.error).__name__)
                _check_failed(tag, case, out, ctx, failing, use_sel.get("select"), env, args, values, mode, ev)
                if mode == "continue" and runner in ("sync", "async"):
                    # the SAME graph object run again with other input values: the same exception object is raised again; what the
                    # second result carries is the second run's work
                    ctx.reset()
                    out2 = (run_sync if runner == "sync" else run_async)(g, values_b, **kw, **use_sel)
                    _check_failed(tag + " [second run of the same graph, other values]", case, out2, ctx, failing, use_sel.get("select"), env_b, args_b, values_b, mode, ev)
        if case.get("pausing_sibling") and len(failing) == 1 and depth[lvl_of[failing[0]]] == 0 and lvl_of[failing[0]] == failing[0] and not flat_pred[failing[0]]:
            # a failing SOURCE node listed before a nested graph that pauses at an interrupt in the same (first) superstep: the failure is
            # the outcome (it comes first in the step), it is not replaced by the pause
            pw = {"k": "graph", "name": "pausew", "graph": {"name": "pausew", "nodes": [{"k": "interrupt", "name": "ask", "params": ["pq"], "defaults": {}, "outs": ["pans"], "mode": "pause", "answer": ["unused"]}]}}
            others = [n for n in fspec_nodes if n["name"] != failing[0]]
            fnode = next(n for n in fspec_nodes if n["name"] == failing[0])
            for mode in ("raise", "continue"):
                ctx = Ctx()
                try:
                    g = make_graph(ctx, {"nodes": [fnode, pw] + others}, "sync")
                except Exception as e:  # noqa: BLE001
                    ev.discard("pausing_sibling_construct:" + type(e).__name__)
                    break
                out = run_async(g, {**values, "pq": ("in", "pq", 0)}, error_handling=mode)
                tagp = f"async {mode} failing={failing} next to a nested graph that pauses in the same superstep"
                obj = ctx.injected.get(failing[0])
                if mode == "raise" and not (out.status == "raised" and out.error is obj):
                    raise Violation("c11.failure_replaced_by_pause", f"[{tagp}] gave {out.brief()} instead of raising the node's exception", got=out.status, mode=mode)
                if mode == "continue" and not (out.status == "failed" and out.error is obj):
                    raise Violation("c11.failure_replaced_by_pause", f"[{tagp}] gave {out.brief()} instead of a FAILED result carrying the node's exception", got=out.status, mode=mode)
                labels.add("failing_source_next_to_pausing_nested_graph")
        ev.count("fault_sites")
        # ---- through map
        if mapped is not None and len(failing) == 1 and mapped["param"] in values:
            items = [("item", i) for i in range(mapped["n"])]
            for runner in ("sync", "async"):
                for mode in ("raise", "continue"):
                    ctx = Ctx()
                    tag = f"{mapped['via']} {runner} {mode} failing={failing}"
                    if mapped["via"] == "runner.map":
                        from hypergraph import AsyncRunner, SyncRunner

                        g = make_graph(ctx, {"nodes": fspec_nodes}, "sync")
                        mv = {**values, mapped["param"]: items}
                        try:
                            if runner == "sync":
                                res = SyncRunner().map(g, mv, map_over=mapped["param"], error_handling=mode)
                            else:
                                res = _arun(AsyncRunner().map(g, mv, map_over=mapped["param"], error_handling=mode))
                        except Exception as e:  # noqa: BLE001
                            if mode != "raise" or e is not ctx.injected.get(failing[0]):
                                raise Violation("c11.map_error", f"[{tag}] raised {type(e).__name__}: {str(e)[:200]}", got=type(e).__name__) from None
                            continue
                        if mode == "raise":
                            raise Violation("c11.map_not_raised", f"[{tag}] every item fails but map returned {len(res)} results")
                        for r in res:
                            if r.status.value != "failed" or r.error is not ctx.injected.get(failing[0]):
                                raise Violation("c11.map_item_error", f"[{tag}] item result {r.status.value} error={type(r.error).__name__}")
                    else:
                        wrapper = {"k": "graph", "name": "mapped", "graph": {"nodes": fspec_nodes, "name": "mapped"}, "map": {"params": [mapped["param"]], "mode": "zip", "error_handling": mode, "before_renames": True}}
                        try:
                            g = make_graph(ctx, {"nodes": [wrapper]}, "sync")
                        except Exception as e:  # noqa: BLE001
                            ev.discard("mapwrap_construct:" + type(e).__name__)
                            break
                        mv = {**values, mapped["param"]: items}
                        out = (run_sync if runner == "sync" else run_async)(g, mv)
                        if mode == "raise":
                            if out.status != "raised" or out.error is not ctx.injected.get(failing[0]):
                                raise Violation("c11.map_error", f"[{tag}] gave {out.brief()} instead of raising the node's exception object", got=out.status)
                            # the mapping node raises, the OUTER run collects errors: the wrapper is the failing node at that level and
                            # it is the only one, so nothing has completed there
                            ctx.reset()
                            oc = (run_sync if runner == "sync" else run_async)(g, mv, error_handling="continue")
                            if oc.status != "failed" or oc.error is not ctx.injected.get(failing[0]) or oc.values:
                                raise Violation("c11.map_outer_continue", f"[{tag}, outer run error_handling='continue'] gave {oc.brief()}; expected FAILED with the node's exception object and no values "
                                                "(values of the inner item runs are not values of the outer graph)", leaked=bool(oc.values))
                        else:
                            if out.status != "completed":
                                raise Violation("c11.map_continue_failed", f"[{tag}] mapping node in continue mode gave {out.brief()}")
                            for k, v in out.values.items():
                                if v != [None] * len(items):
                                    raise Violation("c11.map_continue_values", f"[{tag}] {k}={J(v)}: every item fails, expected {len(items)} None placeholders")
            labels.add("map:" + mapped["via"])
            if mapped["via"] == "runner.map" and len(items) >= 2:
                # bounded async map under a drawn completion order: every item's FAILED result carries the exception object
                # raised for THAT item's arguments (one pre-allocated object per argument tuple), at that item's position
                ctx = Ctx()
                g = make_graph(ctx, {"nodes": _with_fail(nodes, set(failing), per_args=True)}, "async")
                singles_m = [run_async(g, {**values, mapped["param"]: it}, error_handling="continue") for it in items]
                ctx.reset()
                tag = f"runner.map sched continue mc=2 failing={failing}"
                mv = {**values, mapped["param"]: items}
                out, _ = run_scheduled(ctx, g, mv, case["sched"], method="map", map_over=mapped["param"], error_handling="continue", max_concurrency=2)
                if out.status == "deadlock":
                    raise Violation("c11.deadlock", f"[{tag}] {out.error}")
                if out.status == "raised":
                    raise Violation("c11.map_error", f"[{tag}] raised {type(out.error).__name__}: {str(out.error)[:200]}", got=type(out.error).__name__)
                res = out.result
                if len(res) != len(items):
                    raise Violation("c11.map_item_error", f"[{tag}] {len(res)} results for {len(items)} items")
                for i, (r, s1) in enumerate(zip(res, singles_m)):
                    if r.status.value != s1.status or r.error is not s1.error or dict(r.values) != (s1.values or {}):
                        raise Violation("c11.map_item_error", f"[{tag}] item #{i}: {r.status.value} error={r.error!r} values={J(dict(r.values))}; the single run on that item gives {s1.brief()} (the error object belongs to another item)" if r.error is not s1.error else
                                        f"[{tag}] item #{i}: {r.status.value} values={J(dict(r.values))}; the single run on that item gives {s1.brief()}", what="per_item_identity")
                ctx.reset()
                out, _ = run_scheduled(ctx, g, mv, case["sched"], method="map", map_over=mapped["param"], error_handling="raise", max_concurrency=2)
                if out.status != "raised" or not any(out.error is s1.error for s1 in singles_m):
                    raise Violation("c11.map_error", f"[runner.map sched raise mc=2 failing={failing}] gave {out.brief() if out.status != 'map' else 'a result list'} instead of raising one of the items' exception objects", got=out.status)
                labels.add("map:scheduled_bounded_per_item_identity")
    if anc_desc:
        labels.add("failing_with_ancestor_and_descendant")
    if nested_fail:
        labels.add("failing_inside_nested")
    ev.case(case, anc_desc or nested_fail, sorted(labels))
