"""C16 - scoping: entry points limit what runs; results hold only requested outputs.  DESIGN.md section 4/C16."""
from __future__ import annotations

import warnings

from hypothesis import strategies as st

from .. import gen, ref
from ..build import Ctx, J, T, make_graph
from ..core import Violation
from ..gen import prob
from ..observe import arun as _arun

ID = "C16"
LEVEL = "exploration"
BUDGET = {"quick": 4800, "thorough": 40000}
SHARDS = {"quick": 16, "thorough": 16}
RULE = (
    "Part A: Hypothesis-generated acyclic programs (3-8 nodes; some nodes emit ordering signals that others wait for; optionally a "
    "failing node or a pausing interrupt; optionally an interval nested with an inner select) x an entry-point set of 1-2 nodes "
    "(applied to a graph object that may already have been run, and chained) x graph-level select x run-time select given as list "
    "or as string shorthand, naming outputs, emit names, plain inputs or unknown names x on_missing in {ignore, warn, error}; "
    "the caller also supplies every pure input of the excluded upstream part, so a leak would be runnable; both runners. Oracle: "
    "executed nodes are within the entry nodes and their descendants; entry nodes receive the caller's values; the result keys "
    "are exactly the reference evaluator's values restricted to the effective selection (plus caller-supplied names that are "
    "declared outputs); never an emit name, a sentinel object, a plain input or the internal routing key; a selected but unproduced "
    "name is silently absent / warned about exactly once / a ValueError, per on_missing, on both runners; a select naming a "
    "non-output is rejected. The same filters hold for FAILED and PAUSED results. Part B: control-flow programs with cached gates "
    "run twice on one runner (cache hit restores the routing decision): same key filters. Part C: an interval of a flat DAG nested "
    "with an inner DEFAULT selection (a drawn subset of its outputs, possibly empty): the outer graph declares and returns exactly the "
    "outside outputs plus the selected ones, with the reference values. Part D: structured loops (C04's generator) with an upstream node "
    "excluded by 1-3 entry points that all lie on the one cycle (one call or chained): the upstream node never runs and the result equals "
    "the sequential loop on the caller's values. Part E: a name that one exclusive branch emits as an ordering signal and the other "
    "produces as data (flat, nested, mapped): the data value is returned when the data branch ran, nothing (never the sentinel) otherwise. Non-trivial = an entry point that "
    "excludes >=1 runnable upstream node together with a selection that drops >=1 produced output."
)
ASSUMPTIONS = ["a caller-supplied upstream name that is also a declared output may be returned (the statement allows declared outputs)"]

ROUTING_KEY = "__routing_decision__"


@st.composite
def _case(draw, tier):
    if prob(draw, 0.06):
        # Part E: one name that is an ordering SIGNAL of one exclusive branch and a DATA output of the other
        return {"part": "E", "gate": draw(st.sampled_from(["ifelse", "route"])), "take_signal_branch": draw(st.booleans()), "order": draw(st.permutations([0, 1, 2, 3])),
                "nested": draw(st.booleans()), "select": draw(st.sampled_from([None, "**", "final_result"])), "runner": draw(st.sampled_from(["sync", "async"])),
                "map": draw(st.booleans()), "data_first": draw(st.booleans())}
    if prob(draw, 0.1):
        # Part D: entry points on a CYCLE (a structured loop with an excluded upstream node), incl. several on the same cycle
        from .c04 import _case as loop_case

        c = draw(loop_case(tier, force_pre_entry=True))
        return {"part": "D", "loop": c["loop"], "order": c["order"], "runner": draw(st.sampled_from(["sync", "async"]))}
    if prob(draw, 0.2):
        nodes, labels = draw(gen.g2_nodes(max_nodes=5, p_fail=0.2))
        for n in nodes:
            if n["k"] in ("ifelse", "route") or prob(draw, 0.3):
                n["cache"] = True
        return {"part": "B", "nodes": nodes, "runner": draw(st.sampled_from(["sync", "async"])), "select": draw(st.lists(st.integers(0, 9), max_size=2)),
                "max_iter": draw(st.sampled_from([4, 10]))}
    if prob(draw, 0.15):
        # Part C: an interval of a flat DAG nested with an inner default selection (a drawn subset of its outputs that keeps
        # everything consumed outside; possibly EMPTY = expose nothing)
        topo = draw(gen.g1_nodes(3, 7, default_on_edge=0.0, p_const=0.15))
        n = len(topo)
        a = draw(st.integers(0, n - 1))
        b = draw(st.integers(a + 1, n))
        S = topo[a:b]
        s_outs = [o for x in S for o in x["outs"]]
        outside_params = {q for x in topo[:a] + topo[b:] for q in x["params"]}
        must = [o for o in s_outs if o in outside_params]
        free = [o for o in s_outs if o not in outside_params]
        keep = [o for o in free if prob(draw, 0.4)]
        sel = draw(st.permutations(must + keep))
        if not s_outs:
            sel = None  # a graph without outputs has nothing to select from (select() on it is left alone)
        return {"part": "C", "topo": topo, "a": a, "b": b, "inner_select": None if sel is None else list(sel), "runner": draw(st.sampled_from(["sync", "async"])),
                "order": draw(st.permutations(list(range(a + 1 + (n - b)))))}
    topo = draw(gen.g1_nodes(3, 8, default_on_edge=0.1, p_const=0.15))  # incl. outputs whose produced value is None / falsy
    # ordering signals
    if prob(draw, 0.4) and len(topo) >= 2:
        i = draw(st.integers(0, len(topo) - 2))
        j = draw(st.integers(i + 1, len(topo) - 1))
        topo[i]["emit"] = ["sig_a"]
        topo[j]["wait_for"] = ["sig_a"]
    special = draw(st.sampled_from(["none", "none", "fail", "interrupt"]))
    if special == "fail":
        i = draw(st.integers(0, len(topo) - 1))
        topo[i]["fail"] = "always"
    elif special == "interrupt":
        cands = [i for i, n in enumerate(topo) if n["outs"]]
        if cands:
            i = draw(st.sampled_from(cands))
            topo[i].update({"k": "interrupt", "mode": "pause", "answer": ["unused"]})
    names = [n["name"] for n in topo]
    entry = draw(st.lists(st.sampled_from(names), min_size=1, max_size=2, unique=True)) if prob(draw, 0.7) else None
    chain = entry is not None and len(entry) == 2 and draw(st.booleans())
    if entry and prob(draw, 0.3):
        # an early-start gate UPSTREAM of an entry node (so outside the scope) whose inputs are available and which would decide END:
        # it is not part of the run, so it neither executes nor blocks its target
        tnode = next(n for n in topo if n["name"] == entry[0])
        prod0 = ref.producers(topo)
        own_pure = [p for p in tnode["params"] if p not in prod0 and not any(p in n.get("defaults", {}) for n in topo)]
        gp = draw(st.sampled_from(own_pure)) if own_pure and draw(st.booleans()) else "gx"
        topo.insert(0, {"k": "ifelse", "name": "gup", "params": [gp], "defaults": {}, "outs": [], "t": entry[0], "f": "END", "table": [False],
                        "default_open": draw(st.booleans())})  # a closed-by-default gate that never decides keeps its target shut (C03), scope or not
    outs = [o for n in topo for o in n["outs"]]
    emits = [o for n in topo for o in n.get("emit", [])]
    prod = ref.producers(topo)
    pure = list(dict.fromkeys(p for n in topo for p in n["params"] if p not in prod))
    pool = outs + emits
    gsel = draw(st.lists(st.sampled_from(pool), min_size=1, max_size=3, unique=True)) if pool and prob(draw, 0.3) else None
    rt_kind = draw(st.sampled_from(["none", "list", "list", "string", "bad_string", "bad_list", "star"]))
    rsel = None
    if rt_kind in ("list",) and pool:
        rsel = draw(st.lists(st.sampled_from(pool), min_size=1, max_size=3, unique=True))
    elif rt_kind == "string" and pool:
        rsel = draw(st.sampled_from(pool))
    elif rt_kind == "bad_string":
        rsel = draw(st.sampled_from(pure + ["no_such_name"]))
    elif rt_kind == "bad_list":
        rsel = [draw(st.sampled_from(pure + ["no_such_name"]))] + (draw(st.lists(st.sampled_from(pool), max_size=1)) if pool else [])
    elif rt_kind == "star":
        rsel = "**"
    return {"part": "A", "topo": topo, "order": draw(st.permutations(list(range(len(topo))))), "entry": entry, "chain": chain,
            "parent_ran_first": draw(st.booleans()), "gsel": gsel, "rt_kind": rt_kind, "rsel": rsel, "on_missing": draw(st.sampled_from(["ignore", "warn", "error"])),
            "runner": draw(st.sampled_from(["sync", "async"])), "special": special,
            "nest": [draw(st.integers(0, 7)), draw(st.integers(0, 2))] if prob(draw, 0.5) else None}


def strategy(tier):
    return _case(tier)


def _run(runner_kind, g, vals, runner=None, **kw):
    """Returns (Outcome-like tuple, warnings list)."""
    import asyncio

    from hypergraph import AsyncRunner, SyncRunner

    from ..observe import Outcome, _outcome

    with warnings.catch_warnings(record=True) as w:
        warnings.simplefilter("always")
        try:
            if runner_kind == "sync":
                res = (runner or SyncRunner()).run(g, dict(vals), **kw)
            else:
                res = _arun((runner or AsyncRunner()).run(g, dict(vals), **kw))
            out = _outcome(res)
        except Exception as e:  # noqa: BLE001
            out = Outcome("raised", None, e)
    return out, [x for x in w if issubclass(x.category, UserWarning)]


def _filters(tag, out, declared_outputs, emit_names, pure_inputs, supplied):
    from hypergraph.nodes.base import _EMIT_SENTINEL

    for k, v in (out.values or {}).items():
        if v is _EMIT_SENTINEL or type(v).__name__ == "_EmitSentinel" or (type(v) is object):
            raise Violation("c16.sentinel_value", f"[{tag}] result value under {k!r} is an ordering sentinel object", key_kind="emit" if k in emit_names else "other")
        if k in emit_names:
            raise Violation("c16.emit_name_in_result", f"[{tag}] result holds the ordering signal name {k!r}")
        if k == ROUTING_KEY or k.startswith("__"):
            raise Violation("c16.internal_key_in_result", f"[{tag}] result holds internal key {k!r}")
        if k not in declared_outputs:
            raise Violation("c16.non_output_in_result", f"[{tag}] result holds {k!r} which is not a declared output ({'a plain input' if k in pure_inputs else 'unknown name'})",
                            what="plain_input" if k in pure_inputs else "unknown")


def _part_b(case, ev):
    from hypergraph import AsyncRunner, SyncRunner
    from hypergraph.cache import InMemoryCache

    nodes = case["nodes"]
    ctx = Ctx(compact=True)
    try:
        g = make_graph(ctx, {"nodes": nodes}, "sync")
    except Exception as e:  # noqa: BLE001
        ev.discard("construct:" + type(e).__name__)
        return
    sp = g.inputs
    vals = {p: ("in", p, 0) for p in sp.required}
    for ps in sp.entrypoints.values():
        for p in ps:
            vals[p] = ("in", p, 0)
    kw = {"max_iterations": case["max_iter"], "error_handling": "continue"}
    if len(sp.entrypoints) > 1:
        kw["entrypoint"] = sorted(sp.entrypoints)[0]
    outs = list(g.outputs)
    emit_names = {o for n in nodes for o in n.get("emit", [])}
    pure = set(vals) - set(outs)
    if case["select"] and outs:
        kw["select"] = list(dict.fromkeys(outs[i % len(outs)] for i in case["select"]))
    runner = SyncRunner(cache=InMemoryCache()) if case["runner"] == "sync" else AsyncRunner(cache=InMemoryCache())
    labels = {"part:B", "cached_gates"}
    for i in range(2):
        out, _ = _run(case["runner"], g, vals, runner=runner, **kw)
        if out.status == "raised":
            labels.add("raised:" + type(out.error).__name__)
            break
        _filters(f"part B run {i} ({case['runner']})", out, set(outs), emit_names, pure, set(vals))
        if "select" in kw and not set(out.values) <= set(kw["select"]):
            raise Violation("c16.outside_selection", f"[part B run {i}] keys {sorted(out.values)} outside select={kw['select']}")
        labels.add("status:" + out.status)
    ev.case(case, False, sorted(labels))


def _part_c(case, ev):
    topo, a, b = case["topo"], case["a"], case["b"]
    S = topo[a:b]
    if case["inner_select"] is None:
        ev.discard("part_C:no_inner_outputs")
        return
    sel = list(case["inner_select"])
    wrapper = {"k": "graph", "name": "wrap", "graph": {"nodes": [dict(x) for x in S], "name": "wrap", "select": sel}}
    outer = topo[:a] + [wrapper] + topo[b:]
    outer = [outer[i] for i in case["order"]]
    labels = {"part:C", "nested_default_selection", "inner_select:" + ("empty" if not sel else "subset")}
    ctx = Ctx()
    try:
        g = make_graph(ctx, {"nodes": outer}, "sync")
    except Exception as e:  # noqa: BLE001
        ev.discard("construct:" + type(e).__name__)
        return
    # reference: inside the wrapper only the nodes that feed a selected output take part
    sprod = {o: x["name"] for x in S for o in x["outs"]}
    inner_active = ref.ancestors_closure(S, {sprod[o] for o in sel}) if sel else set()
    active = {x["name"] for x in topo[:a] + topo[b:]} | set(inner_active)
    hidden = [o for x in S for o in x["outs"] if o not in sel]
    declared = {o for x in topo[:a] + topo[b:] for o in x["outs"]} | set(sel)
    if set(g.outputs) != declared:
        raise Violation("c16.nested_exposes", f"[part C select={sel}] the graph declares outputs {sorted(g.outputs)}; the nested graph selects {sel}, so {sorted(declared)} are expected (hidden: {hidden})")
    vals = {q: ("in", q, 0) for q in g.inputs.required}
    env, args = ref.eval_dag(topo, vals, {}, active=active)
    out, _ = _run(case["runner"], g, vals)
    tag = f"part C {case['runner']} inner select={sel}"
    if out.status != "completed":
        raise Violation("c16.status", f"[{tag}] {out.brief()}")
    # (a selection does not forbid an inner node that feeds no selected output from running when its inputs happen to be
    # available - only entry points restrict execution; what is judged is what the nested graph EXPOSES)
    expect = {k: v for k, v in env.items() if k in declared}
    if out.values != expect:
        diff = {k: (J(out.values.get(k, "<absent>")), J(expect.get(k, "<absent>"))) for k in set(out.values) | set(expect) if out.values.get(k, "<absent>") != expect.get(k, "<absent>")}
        raise Violation("c16.nested_selection_values", f"[{tag}] (got, expected) {diff}", leaked=any(k in hidden for k in out.values))
    ev.case(case, bool(hidden), sorted(labels))


def _part_d(case, ev):
    from ..loops import eval_loop, loop_graph_spec, loop_values
    from .c04 import _run_kw

    L = case["loop"]
    if not L.get("pre_entry"):
        ev.discard("part_D:form_without_excluded_upstream")
        return
    gspec = loop_graph_spec(L, case["order"])
    env, counts, _, iters = eval_loop(L)
    vals = loop_values(L)
    ctx = Ctx()
    g = make_graph(ctx, gspec, "sync")
    out, _ = _run(case["runner"], g, vals, **_run_kw(L, g))
    entry = gspec["entry"]
    tag = f"part D {case['runner']} loop form={L['form']} k={L['k']} entry points={entry}{' (chained)' if gspec.get('entry_chain') else ''}"
    ran = {f for f, _ in ctx.log}
    if "mk_limit" in ran:
        raise Violation("c16.upstream_ran", f"[{tag}] mk_limit lies upstream of every entry point but executed", history=False, cyclic=True)
    if out.status != "completed":
        raise Violation("c16.status", f"[{tag}] {out.brief()}")
    outs = {o for n in gspec["nodes"] for o in n.get("outs", [])}
    emit_names = {o for n in gspec["nodes"] for o in n.get("emit", [])}
    _filters(tag, out, outs, emit_names, set(vals) - outs, set(vals))
    if out.values != env:
        diff = {k: (J(out.values.get(k, "<absent>")), J(env.get(k, "<absent>"))) for k in set(out.values) | set(env) if out.values.get(k, "<absent>") != env.get(k, "<absent>")}
        raise Violation("c16.cyclic_scope_values", f"[{tag}] the entry nodes and everything downstream of them (the whole cycle) must run with the caller's upstream values; "
                        f"(got, expected) {diff}; executed {sorted(ran)}", nothing_ran=not ran)
    labels = {"part:D", "cyclic_entry_points", f"entry_points:{min(len(entry), 3)}", f"runner:{case['runner']}"}
    if gspec.get("entry_chain") and len(entry) > 1:
        labels.add("chained_entrypoints")
    ev.case(case, len(entry) > 1 and iters >= 1, sorted(labels))


def _part_e(case, ev):
    sig = case["take_signal_branch"]
    fast = {"k": "func", "name": "fast", "params": ["n"], "defaults": {}, "outs": ["result"], "emit": ["aud"]}
    slow = {"k": "func", "name": "slow", "params": ["n"], "defaults": {}, "outs": ["result", "aud"] if not case["data_first"] else ["aud", "result"]}
    fin = {"k": "func", "name": "fin", "params": ["result"], "defaults": {}, "outs": ["final"], "wait_for": ["aud"]}
    if case["gate"] == "ifelse":
        gate = {"k": "ifelse", "name": "pick", "params": ["n"], "defaults": {}, "t": "fast", "f": "slow", "table": [bool(sig)], "default_open": True}
    else:
        gate = {"k": "route", "name": "pick", "params": ["n"], "defaults": {}, "targets": ["fast", "slow"], "fallback": None, "multi": False, "table": ["fast" if sig else "slow"], "default_open": True}
    inner = [[gate, fast, slow, fin][i] for i in case["order"]]
    nodes = inner
    if case["nested"]:
        nodes = [{"k": "graph", "name": "branches", "graph": {"nodes": inner, "name": "branches"}}, {"k": "func", "name": "shout", "params": ["final"], "defaults": {}, "outs": ["loud"]}]
    ctx = Ctx()
    g = make_graph(ctx, {"nodes": nodes}, "sync")
    vals = {"n": ("in", "n", 0)}
    taken = fast if sig else slow
    env = ref.out_terms(taken, (vals["n"],))
    env.update(ref.out_terms(fin, (env["result"],)))
    if case["nested"]:
        env["loud"] = ("shout", 0, (env["final"],))
    kw = {}
    if case["select"] == "**":
        kw["select"] = "**"
    elif case["select"] == "final_result":
        kw["select"] = ["final", "result"]
        env = {k: v for k, v in env.items() if k in ("final", "result")}
    tag = f"part E {case['runner']} {'signal' if sig else 'data'} branch taken, nested={case['nested']} select={case['select']!r}"
    outs_ = []
    out, _ = _run(case["runner"], g, vals, **kw)
    outs_.append(("run", out))
    if case["map"]:
        import asyncio as _aio

        from hypergraph import AsyncRunner, SyncRunner

        from ..observe import _outcome
        with warnings.catch_warnings():
            warnings.simplefilter("ignore")
            if case["runner"] == "sync":
                res = SyncRunner().map(g, {"n": [vals["n"], vals["n"]]}, map_over="n", **kw)
            else:
                res = _arun(AsyncRunner().map(g, {"n": [vals["n"], vals["n"]]}, map_over="n", **kw))
        outs_ += [(f"map[{i}]", _outcome(r)) for i, r in enumerate(res)]
    for which, o in outs_:
        if o.status != "completed":
            raise Violation("c16.status", f"[{tag} {which}] {o.brief()}")
        # `aud` IS a declared data output of the graph (the other branch produces it), so the name filter does not apply: what must
        # never come back is the sentinel VALUE that stands for it when only the signal was produced
        for k, v in o.values.items():
            if type(v).__name__ == "_EmitSentinel" or type(v) is object:
                raise Violation("c16.sentinel_value", f"[{tag} {which}] result value under {k!r} is an ordering sentinel object: only the signal-emitting branch ran, {k!r} has no data value", key_kind="emit_and_data")
        if o.values != env:
            diff = {k: (J(o.values.get(k, "<absent>")), J(env.get(k, "<absent>"))) for k in set(o.values) | set(env) if o.values.get(k, "<absent>") != env.get(k, "<absent>")}
            raise Violation("c16.signal_or_data_values", f"[{tag} {which}] (got, expected) {diff}")
    ev.case(case, sig, sorted({"part:E", "name_is_signal_and_data", "branch:" + ("signal" if sig else "data"), f"runner:{case['runner']}"} | ({"nested"} if case["nested"] else set())))


def check_case(case, ev):
    if case["part"] == "E":
        return _part_e(case, ev)
    if case["part"] == "D":
        return _part_d(case, ev)
    if case["part"] == "B":
        return _part_b(case, ev)
    if case["part"] == "C":
        return _part_c(case, ev)
    topo = case["topo"]
    nodes = [topo[i] for i in case["order"]]
    if case["special"] == "interrupt":
        case = {**case, "runner": "async"}  # interrupts need the async runner
    labels = {"part:A", f"special:{case['special']}", f"rt:{case['rt_kind']}", f"on_missing:{case['on_missing']}", f"runner:{case['runner']}"}
    prod = ref.producers(topo)
    outs = [o for n in topo for o in n["outs"]]
    emit_names = {o for n in topo for o in n.get("emit", [])}
    declared = set(outs) | emit_names
    pure = list(dict.fromkeys(p for n in topo for p in n["params"] if p not in prod))
    entry = case["entry"]
    ctx = Ctx()
    g0 = make_graph(ctx, {"nodes": nodes}, "sync")
    g = g0
    if case["gsel"]:
        g = g.select(*case["gsel"])
        labels.add("graph_select")
    # ---- the parent object may already have been run before the entry-point variant is derived from it
    all_vals = {p: ("in", p, 0) for p in pure}
    if case["parent_ran_first"]:
        _run(case["runner"], g, all_vals, error_handling="continue", on_internal_override="ignore")
        labels.add("parent_ran_first")
    if entry:
        if case["chain"]:
            g = g.with_entrypoint(entry[0])
            _run(case["runner"], g, {**all_vals, **{o: ("up", o) for o in outs}}, error_handling="continue", on_internal_override="ignore")
            g = g.with_entrypoint(entry[1])
            labels.add("chained_entrypoints")
        else:
            g = g.with_entrypoint(*entry)
        labels.add("entrypoint")
    active = ref.descendants(topo, entry) if entry else {n["name"] for n in topo}
    # ordering (wait_for) dependencies are part of "downstream" too
    changed = True
    emitters = {o: n["name"] for n in topo for o in n.get("emit", [])}
    while changed:
        changed = False
        for n in topo:
            if n["name"] not in active and any(emitters.get(w) in active for w in n.get("wait_for", [])):
                active.add(n["name"])
                active |= ref.descendants(topo, {n["name"]})
                changed = True
    # ---- values: every pure input of the whole graph + the upstream names the active part consumes
    vals = dict(all_vals)
    upstream_names = set()
    for n in topo:
        if n["name"] in active:
            for p in n["params"]:
                if p in prod and prod[p]["name"] not in active:
                    upstream_names.add(p)
    for p in upstream_names:
        vals[p] = ("up", p)
    # a waiter inside the active part whose signal is emitted outside can never fire; nothing to supply for a signal
    eff_sel = None
    rsel = case["rsel"]
    # continue mode only where a node failure is expected: with on_missing="error" a missing selected name then
    # surfaces as a raised ValueError rather than as a FAILED result
    kw = {"error_handling": "continue" if case["special"] == "fail" else "raise", "on_internal_override": "ignore", "on_missing": case["on_missing"]}
    bad_select = False
    if case["rt_kind"] in ("list", "string", "bad_string", "bad_list", "star") and rsel is not None:
        kw["select"] = rsel
        names = [rsel] if isinstance(rsel, str) else list(rsel)
        if rsel == "**":
            eff_sel = None
        else:
            eff_sel = names
            bad_select = any(x not in declared for x in names)
    elif case["gsel"]:
        eff_sel = list(case["gsel"])

    out, warns = _run(case["runner"], g, vals, **kw)
    tag = f"{case['runner']} entry={entry} gsel={case['gsel']} rsel={rsel!r} on_missing={case['on_missing']}"
    if bad_select:
        labels.add("select_names_non_output")
        if out.status != "raised":
            leaked = [x for x in (out.values or {}) if x not in declared]
            if leaked:
                raise Violation("c16.non_output_in_result", f"[{tag}] select naming non-outputs was accepted and the result holds {leaked}", what="plain_input" if any(x in pure for x in leaked) else "unknown")
            raise Violation("c16.bad_select_accepted", f"[{tag}] select names {[x for x in eff_sel if x not in declared]} are not outputs but the run was accepted: {out.brief()}")
        ev.case(case, False, sorted(labels))
        return

    # ---- reference
    answers = {}
    # a CLOSED-by-default gate outside the scope never runs, hence never decides: the entry node it controls stays shut (entry points
    # say where a run may start, they do not open gates), and so does everything that needs its outputs
    shut = {n["t"] for n in topo if n["name"] == "gup" and not n.get("default_open", True)}
    scope = set(active)
    active = set(active) - shut
    if shut:
        labels.add("entry_node_behind_a_closed_gate_outside_the_scope")
    env, args = ref.eval_dag(topo, vals, {}, active=active, answers=answers)
    # waiters only run when their signal is produced by an executed emitter
    executed_ref = {n["name"] for n in topo if n["name"] in active and args.get(n["name"]) is not None}
    blocked = True
    never_fires = False
    while blocked:
        blocked = False
        for n in topo:
            if n["name"] in executed_ref:
                ws = n.get("wait_for", [])
                if any(emitters.get(w) not in executed_ref for w in ws) or any(prod[p]["name"] not in executed_ref for p in n["params"] if p in prod and prod[p]["name"] in active and p not in vals and p not in n.get("defaults", {})):
                    executed_ref.discard(n["name"])
                    blocked = True
                    never_fires = True
    if never_fires:
        # a waiter whose signal is emitted outside the active part never fires: its consumers see their defaults
        env, args = ref.eval_dag(topo, vals, {}, active=executed_ref, answers=answers)
        labels.add("waiter_never_fires")
    special = case["special"]
    ran = {f for f, _ in ctx.log}
    # the history before (parent / chained runs) shares ctx: only look at the last call
    # -> recompute from a fresh context
    ctx2 = Ctx()
    g2 = make_graph(ctx2, {"nodes": nodes}, "sync")
    if case["gsel"]:
        g2 = g2.select(*case["gsel"])
    if entry:
        g2 = g2.with_entrypoint(*entry)
    out2, warns2 = _run(case["runner"], g2, vals, **kw)
    ran2 = {f for f, _ in ctx2.log}

    for which, o, r, w in (("derived-after-history", out, None, warns), ("fresh", out2, ran2, warns2)):
        t = f"{tag} [{which}]"
        if r is not None and not r <= active and (r - active) <= shut:
            raise Violation("c16.entry_node_behind_closed_gate_ran", f"[{t}] {sorted(r - active)} is controlled by a closed-by-default gate that lies outside the entry-point scope and therefore never decided, "
                            "yet it executed", history=False)
        if r is not None and not r <= active:
            raise Violation("c16.upstream_ran", f"[{t}] nodes outside the entry points' downstream closure executed: {sorted(r - active)}", history=False)
        if o.status in ("raised", "failed") and isinstance(o.error, ValueError) and case["on_missing"] == "error" and "Requested outputs not found" in str(o.error):
            labels.add("on_missing_error_raised")
            continue
        if o.status == "raised":
            raise Violation("c16.run_raised", f"[{t}] {type(o.error).__name__}: {str(o.error)[:300]}", error=type(o.error).__name__)
        _filters(t, o, set(outs), emit_names, set(pure), set(vals))
        if eff_sel is not None and not set(o.values) <= set(eff_sel):
            raise Violation("c16.outside_selection", f"[{t}] keys {sorted(o.values)} outside the effective selection {eff_sel}")
    # an explicit run-time "**" overrides the graph's default selection for EVERY outcome (completed, failed, paused): the result is
    # that of the same graph without a default selection
    if case["rt_kind"] == "star" and case["gsel"] and out2.status in ("completed", "failed", "paused"):
        ctx4 = Ctx()
        g4 = make_graph(ctx4, {"nodes": nodes}, "sync")
        if entry:
            g4 = g4.with_entrypoint(*entry)
        out4, _w4 = _run(case["runner"], g4, vals, **{k_: v_ for k_, v_ in kw.items() if k_ != "select"})
        if out4.status != out2.status or out4.values != out2.values:
            raise Violation("c16.star_does_not_override_default", f"[{tag}] with the graph default select={case['gsel']} and run-time select='**' the {out2.status} result holds {sorted(out2.values or {})}; "
                            f"the same graph without a default selection gives {out4.status} {sorted(out4.values or {})}", status=out2.status)
        labels.add("star_overrides_default:" + out2.status)
    # value-level comparison on the fresh run (and the derived one must agree with it)
    if out.status != out2.status or (out.values != out2.values):
        raise Violation("c16.history_dependent", f"[{tag}] the graph derived after its parent had run gives {out.brief()}, a freshly built one gives {out2.brief()}", history=True)
    if out2.status in ("completed", "failed", "paused") and special == "none" and out2.status != "completed":
        raise Violation("c16.status", f"[{tag}] {out2.brief()}")
    if out2.status == "completed":
        expect = {k: v for k, v in env.items() if prod[k]["name"] in executed_ref}
        # caller-supplied upstream names are declared outputs and may be returned
        allowed_extra = {k for k in vals if k in outs}
        sel = set(eff_sel) if eff_sel is not None else None
        # A consumer with a signature default on a fed edge starts early and re-runs when the value arrives; a waiter
        # downstream of it may already have consumed its one signal, so it keeps the early value (documented freshness
        # rule of wait_for).  Values are C01's/C17's subject: here only the key set is judged for such programs.
        stale_possible = any(n.get("wait_for") for n in topo if n["name"] in executed_ref) and any(
            p in n.get("defaults", {}) and p in prod and prod[p]["name"] in executed_ref for n in topo if n["name"] in executed_ref for p in n["params"])
        if stale_possible:
            labels.add("values_not_compared:default_edge_with_waiter")
        for k, v in expect.items():
            if sel is not None and k not in sel:
                continue
            if k not in out2.values:
                raise Violation("c16.selected_value_missing", f"[{tag}] {k!r} was produced by an executed node and is selected but is absent from {sorted(out2.values)}")
            if out2.values[k] != v and not stale_possible:
                raise Violation("c16.value_wrong", f"[{tag}] {k}={J(out2.values[k])} expected {J(v)}")
        for k in out2.values:
            if k not in expect and k not in allowed_extra:
                raise Violation("c16.unexpected_key", f"[{tag}] result holds {k!r} which no executed node produced and the caller did not supply")
        for n in topo:
            if n["name"] in executed_ref and entry and n["name"] in entry:
                calls = ctx2.calls(n["name"])
                if not calls or (calls[-1] != args[n["name"]] and not stale_possible):
                    raise Violation("c16.entry_args", f"[{tag}] entry node {n['name']} ran with {J(calls[-1:] )}, expected the caller's values {J(args[n['name']])}")
        # on_missing policy
        if sel is not None:
            missing = [k for k in eff_sel if k not in expect and k not in vals and k not in emit_names]
            if missing:
                labels.add("missing_selected")
                mw = [x for x in warns2 if "Requested outputs not found" in str(x.message)]
                if case["on_missing"] == "ignore" and mw:
                    raise Violation("c16.on_missing_ignore_warned", f"[{tag}] on_missing=ignore but warned: {mw[0].message}")
                if case["on_missing"] == "warn" and len(mw) != 1:
                    raise Violation("c16.on_missing_warn", f"[{tag}] on_missing=warn: {len(mw)} warnings for missing {missing}", count=len(mw), runner=case["runner"])
                if case["on_missing"] == "error":
                    raise Violation("c16.on_missing_error_not_raised", f"[{tag}] on_missing=error but {missing} are missing and the run returned {out2.brief()}", runner=case["runner"])
    elif out2.status == "raised" and case["on_missing"] == "error":
        pass
    # the same program with an interval of plain nodes (wholly inside or wholly outside the scope, no entry node) run as a NESTED
    # graph node: the scope of the outer run is not disturbed by the nested run the same runner performs in between
    if case.get("nest") is not None and out2.status == "completed":
        i0, ln = case["nest"]
        a = i0 % len(topo)
        b = min(len(topo), a + 1 + ln)
        S = topo[a:b]
        names = {x["name"] for x in S}
        plain = all(x["k"] == "func" and not x.get("emit") and not x.get("wait_for") and not x.get("fail") for x in S)
        if plain and not (names & set(entry or [])) and (names <= active or not (names & active)):
            wrapper = {"k": "graph", "name": "nestw", "graph": {"nodes": [dict(x) for x in S], "name": "nestw"}}
            ctx3 = Ctx()
            try:
                g3 = make_graph(ctx3, {"nodes": topo[:a] + [wrapper] + topo[b:]}, "sync")
                if case["gsel"]:
                    g3 = g3.select(*case["gsel"])
                if entry:
                    g3 = g3.with_entrypoint(*entry)
            except Exception as e:  # noqa: BLE001 - nesting this interval is not possible (C05's subject); nothing to compare
                ev.count("nest_variant_rejected:" + type(e).__name__)
                g3 = None
            if g3 is not None:
                out3, _w3 = _run(case["runner"], g3, vals, **kw)
                ran3 = {f for f, _ in ctx3.log}
                if not ran3 <= active:
                    raise Violation("c16.upstream_ran", f"[{tag} [interval {sorted(names)} nested]] nodes outside the entry points' downstream closure executed: {sorted(ran3 - active)}", history=False, nested=True)
                # (nesting shifts WHEN a value arrives; with a defaulted consumer feeding / being a waiter the early value may
                # legitimately stick - see stale_possible above - so values are compared only where timing cannot matter)
                if out3.status != "completed" or (out3.values != out2.values and not stale_possible) or set(out3.values) != set(out2.values):
                    raise Violation("c16.nested_variant_differs", f"[{tag}] with {sorted(names)} run as a nested graph node the result is {out3.brief()}; flat: {out2.brief()}")
                labels.add("interval_nested_" + ("inside_scope" if names <= active else "outside_scope"))
    # the same call as a one-item map(): graph default, run-time select and on_missing mean the same there
    if out2.status == "completed" and vals and special == "none":
        import asyncio as _aio

        from hypergraph import AsyncRunner, SyncRunner

        mp = sorted(vals)[0]
        mkw = {k: v for k, v in kw.items() if k in ("select", "on_missing", "on_internal_override")}
        with warnings.catch_warnings():
            warnings.simplefilter("ignore")
            try:
                if case["runner"] == "sync":
                    res = SyncRunner().map(g2, {**vals, mp: [vals[mp]]}, map_over=mp, **mkw)
                else:
                    res = _arun(AsyncRunner().map(g2, {**vals, mp: [vals[mp]]}, map_over=mp, **mkw))
            except Exception as e:  # noqa: BLE001
                raise Violation("c16.map_differs_from_run", f"[{tag}] run() completed with {J(out2.values)} but the one-item map() raised {type(e).__name__}: {str(e)[:200]}", how="raised") from None
        if len(res) != 1 or res[0].status.value != "completed" or dict(res[0].values) != out2.values:
            raise Violation("c16.map_differs_from_run", f"[{tag}] run() returned {J(out2.values)}; the one-item map() over {mp!r} returned {[(r.status.value, J(dict(r.values))) for r in res]}", how="values")
        labels.add("one_item_map_agrees")
    excluded_runnable = bool(entry) and any(n["name"] not in active for n in topo)
    drops = eff_sel is not None and any(k not in eff_sel for k in env)
    labels.add("status:" + out2.status)
    ev.case(case, excluded_runnable and drops, sorted(labels))
