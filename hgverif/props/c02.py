"""C02 - determinism across runner, schedule, concurrency limit and node order.  DESIGN.md section 4/C02."""
from __future__ import annotations

import itertools

from hypothesis import strategies as st

from .. import gen, ref
from ..gen import prob
from ..build import Ctx, Injected, J, T, make_graph
from ..core import Violation
from ..observe import call_multiset, run_sync
from ..sched import enumerate_schedules, run_scheduled

ID = "C02"
LEVEL = "exploration"
BUDGET = {"quick": 1200, "thorough": 8000}
SHARDS = {"quick": 16, "thorough": 16}
SCHED_CAP = {"quick": 24, "thorough": 120}
RULE = (
    "Hypothesis-generated programs: gate-free DAGs and control-flow programs (1-3 if/else or route gates incl. multi-target, fallback, "
    "None, END, default_open either way; optional data cycle; optional emit/wait_for pair; optional failing node), max_iterations "
    "<= 25. Each program: one SyncRunner run; AsyncRunner (async node bodies) under EVERY completion schedule found by DFS "
    "over the harness scheduler's choice points up to the cap, then Hypothesis-drawn schedules; max_concurrency in {1,2,3}; "
    "node-list permutations when output names are unique. Oracle: identical (status, values, call multiset); same error "
    "identity; sync partial values contained in async partial values; no node receives a value first produced by a sibling of "
    "its own superstep. Non-trivial = a superstep with >=2 concurrently parked bodies and >=2 distinct schedules executed, or a "
    "failing step with a successful sibling. Distinct = sha256 of canonical case JSON."
)
ASSUMPTIONS = [
    "async interleavings are those forced at NodeStart and at function entry (one suspension per body)",
    "failing and pausing runs are not compared across node-list permutations (statement restricts that clause to non-failing runs)",
]


@st.composite
def _case(draw, tier):
    if prob(draw, 0.08):
        # sibling nested graphs that each bind, inside, an input they expose under one shared name (C05's generator): which
        # binding a nested graph sees must not depend on runner, schedule or the order of the node list
        from .c05 import _siblings_case

        sc = draw(_siblings_case())
        nodes, labels, map_lists = sc["nested"], ["dag", "sibling_bindings"], {}
    elif prob(draw, 0.3):
        topo = draw(gen.g1_nodes(2, 7))
        labels = ["dag"]
        if len(topo) >= 3 and prob(draw, 0.5):
            # an interval nested to depth 1-2 (inner names permuted, boundary renamed back): nested runs interleave too
            outer, _hidden, _inactive = draw(gen.nest_spec(topo, draw(st.sampled_from([1, 2])), {}, permute_names=draw(st.booleans())))
            if not _hidden:
                topo = outer
                labels.append("nested")
        map_lists = {}
        if "nested" not in labels and len(topo) >= 2 and prob(draw, 0.5):
            # an interval run as a MAPPING graph node (zip or product over 1-2 of its plain inputs): the lists it returns
            # must not depend on runner, schedule, or the order in which its own nodes are listed
            n = len(topo)
            a = draw(st.integers(0, n - 1))
            b = draw(st.integers(a + 1, n))
            S = topo[a:b]
            allprod = ref.producers(topo)
            cands = list(dict.fromkeys(q for x in S for q in x["params"] if q not in allprod and not any(q in y.get("defaults", {}) for y in topo)))
            if cands:
                mp = draw(st.permutations(cands))[: (2 if len(cands) >= 2 and prob(draw, 0.7) else 1)]
                mode = "zip" if len(mp) == 1 else draw(st.sampled_from(["zip", "product", "product"]))
                lens = [draw(st.integers(1, 3))] * len(mp) if mode == "zip" else [draw(st.sampled_from([1, 2, 2, 3])) for _ in mp]
                map_lists = dict(zip(mp, lens))
                wrapper = {"k": "graph", "name": "mapped", "graph": {"nodes": [dict(x) for x in S], "name": "mapped"},
                           "flat_outputs": [o for x in S for o in x["outs"]],
                           "map": {"params": list(mp), "mode": mode, "error_handling": "raise", "before_renames": True}}
                topo = topo[:a] + [wrapper] + topo[b:]
                labels.append("mapping_node:" + mode)
        nodes = draw(gen.permuted(topo))
    elif prob(draw, 0.15):
        # chained gates in a loop (an outer gate routes to an inner gate, which routes to the loop body): C03's family - the order in
        # which gates and their targets are LISTED must not matter
        from .c03 import _chained_gates_in_loop

        nodes, labels = draw(_chained_gates_in_loop())
        nodes = draw(gen.permuted(nodes))
        labels = list(labels) + ["chained_gates_in_loop"]
        map_lists = {}
    else:
        nodes, labels = draw(gen.g2_nodes(max_nodes=6))
        map_lists = {}
    entry = None
    if "dag" in labels and prob(draw, 0.3):
        # the run is scoped by an entry point (upstream values come from the caller); scoping must mean the same on both runners
        # and under every schedule, also while nested / mapping nodes run in between
        entry = draw(st.sampled_from([n["name"] for n in nodes]))
        labels.append("entry_point")
    return {
        "entry": entry,
        "nodes": nodes,
        "labels": labels,
        "map_lists": map_lists,
        "omit": draw(st.lists(st.integers(0, 7), max_size=3)),
        "max_iter": draw(st.sampled_from([3, 6, 12, 25])),
        "entry_pick": draw(st.integers(0, 7)),
        # a run-time selection (possibly of outputs that a failing or unselected branch never produces) under each on_missing policy
        "rt_select": draw(st.lists(st.integers(0, 15), min_size=1, max_size=3)) if prob(draw, 0.3) else None,
        "on_missing": draw(st.sampled_from(["ignore", "warn", "error", "error"])),
        "extra_sched": draw(st.lists(st.lists(st.integers(0, 7), max_size=30), min_size=1, max_size=3)),
        "perm_seed": draw(st.lists(st.integers(0, 50), min_size=2, max_size=4)),
    }


def strategy(tier):
    return _case(tier)


def _values_for(g, case):
    sp = g.inputs
    vals = {p: ("in", p, 0) for p in sp.required}
    kw = {}
    if sp.entrypoints:
        eps = sorted(sp.entrypoints)
        ep = eps[case["entry_pick"] % len(eps)]
        kw["entrypoint"] = ep
        for ps in sp.entrypoints.values():
            for p in ps:
                vals[p] = ("in", p, 0)
    opt = list(sp.optional)
    omit = {opt[i % len(opt)] for i in case["omit"]} if opt else set()
    for p in opt:
        if p not in omit:
            vals[p] = ("in", p, 1)
    for p, n in (case.get("map_lists") or {}).items():
        vals[p] = [("in", p, j) for j in range(n)]
    if case.get("rt_select") and g.outputs:
        outs = sorted(g.outputs)
        kw["select"] = list(dict.fromkeys(outs[i % len(outs)] for i in case["rt_select"]))
        kw["on_missing"] = case.get("on_missing", "ignore")
    return vals, kw


def _err_id(e):
    if e is None:
        return None
    if isinstance(e, Injected):
        return ("Injected", e.fid)
    return (type(e).__name__, str(e)[:120])


def _norm(out, ctx):
    return (out.status, out.values, call_multiset(ctx.log), _err_id(out.error))


def _steps_from_events(events):
    """Top-level run: list of supersteps, each the list of node names started in it (observed through events)."""
    from hypergraph.events.types import NodeEndEvent, NodeErrorEvent, NodeStartEvent, RunStartEvent

    top = None
    steps = []
    ended_since = True
    for e in events:
        if isinstance(e, RunStartEvent) and top is None:
            top = e.run_id
        if getattr(e, "run_id", None) != top:
            continue
        if isinstance(e, NodeStartEvent):
            if ended_since:
                steps.append([])
                ended_since = False
            steps[-1].append(e.node_name)
        elif isinstance(e, (NodeEndEvent, NodeErrorEvent)):
            ended_since = True
    return steps


def _check_isolation(nodes, ctx, steps, tag):
    """No invocation of step s receives a term first produced by a sibling invocation of step s."""
    by_name = {n["name"]: n for n in nodes}
    pos = {}
    seen_before: set = set()
    for s, names in enumerate(steps):
        produced_here = {}
        invs = []
        for nm in names:
            n = by_name.get(nm)
            if n is None or n["k"] != "func":
                continue
            k = pos.get(nm, 0)
            calls = ctx.calls(ref.fid(n))
            if k >= len(calls):
                continue  # started but its body never ran (failed sibling / cancelled)
            pos[nm] = k + 1
            a = calls[k]
            invs.append((nm, a))
            from ..build import crc

            body = crc(a) if ctx.compact else a
            for i in range(len(n.get("outs", []))):
                produced_here[(ref.fid(n), i, body)] = nm
        for nm, a in invs:
            for v in a:
                src = produced_here.get(v) if isinstance(v, tuple) else None
                if src is not None and src != nm and v not in seen_before:
                    raise Violation("c02.same_step_visibility", f"[{tag}] node {nm} in step {s} received {J(v)} produced by sibling {src} in the same step")
        seen_before |= set(produced_here)


def check_case(case, ev):
    nodes = case["nodes"]
    labels = set(case["labels"])
    mi = case["max_iter"]
    gspec = {"nodes": nodes, **({"entry": [case["entry"]]} if case.get("entry") else {})}
    ctx_s = Ctx(compact=True)
    try:
        g_s = make_graph(ctx_s, gspec, "sync")
    except Exception as e:  # noqa: BLE001 - generator draws the constructor rejects are discarded and counted
        ev.discard("construct:" + type(e).__name__ + ":" + str(e).split("\n")[0][:50])
        return
    vals, kw = _values_for(g_s, case)
    if "select" in kw:
        labels.add("run_time_select:on_missing=" + kw["on_missing"])
    base = run_sync(g_s, vals, max_iterations=mi, error_handling="continue", **kw)
    base_norm = _norm(base, ctx_s)
    if base.status == "raised":
        labels.add("rejected:" + type(base.error).__name__)
    labels.add("status:" + base.status + (":" + _err_id(base.error)[0] if base.error is not None else ""))

    # ---- async under enumerated schedules
    max_parked_bodies = [0]
    nsched = [0]
    sibling_ok_with_failure = [False]

    def run_once(choices, mc=None):
        ctx = Ctx(compact=True)
        g = make_graph(ctx, gspec, "async")
        out, sched = run_scheduled(ctx, g, vals, choices, max_iterations=mi, error_handling="continue", max_concurrency=mc, **kw)
        nsched[0] += 1
        for parked, _ in sched.trace:
            nb = sum(1 for lab in parked if lab.startswith("('body'"))
            max_parked_bodies[0] = max(max_parked_bodies[0], nb)
        tag = f"async sched={choices} mc={mc}"
        if out.status == "deadlock":
            raise Violation("c02.deadlock", f"[{tag}] {out.error}")
        n = _norm(out, ctx)
        if base.status in ("completed",):
            if n != base_norm:
                raise Violation(
                    "c02.outcome_differs",
                    f"[{tag}] sync={base.brief()} async={out.brief()} calls_sync={J(sorted(map(repr, base_norm[2].items())))} calls_async={J(sorted(map(repr, n[2].items())))}",
                    status=out.status,
                )
        elif base.status == "failed":
            if out.status != "failed" or _err_id(out.error) != _err_id(base.error):
                raise Violation("c02.error_differs", f"[{tag}] sync={base.brief()} async={out.brief()}")
            for k, v in base.values.items():
                # a same-step sibling that only the async runner got to execute may legitimately re-produce k
                # (cycles, seeded entry-point names): then the two runners hold different versions of k by design
                prods = [ref.fid(n) for n in nodes if k in n.get("outs", [])]
                if any(ctx.count(f) != ctx_s.count(f) for f in prods):
                    ev.count("partial_value_reproduced_by_async_sibling")
                    continue
                if k not in out.values or out.values[k] != v:
                    raise Violation("c02.partial_values", f"[{tag}] sync partial {k}={J(v)} but async has {J(out.values.get(k, '<absent>'))}")
            if isinstance(base.error, Injected) and len(out.values) > 0:
                sibling_ok_with_failure[0] = True
        else:  # rejected before execution: same rejection
            if out.status != "raised" or type(out.error) is not type(base.error):
                raise Violation("c02.rejection_differs", f"[{tag}] sync={base.brief()} async={out.brief()}")
        if out.status in ("completed", "failed"):
            steps = _steps_from_events(sched.hold.events)
            _check_isolation(nodes, ctx, steps, tag)
        return out, sched.branching

    cap = SCHED_CAP[ev.tier]
    it = enumerate_schedules(lambda ch: run_once(ch), cap)
    exhaustive = False
    try:
        while True:
            next(it)
    except StopIteration as stop:
        exhaustive = bool(stop.value)
    if exhaustive:
        labels.add("schedules_exhaustive")
    else:
        for ch in case["extra_sched"]:
            run_once(list(ch))
    for mc in (1, 2, 3):
        run_once(list(case["extra_sched"][0]), mc=mc)
    ev.count("schedules_executed", nsched[0])

    # ---- node-list permutations (non-failing, unique output names)
    outs = [o for n in nodes for o in n.get("outs", n.get("flat_outputs", [])) + n.get("emit", [])]
    if base.status == "completed" and len(outs) == len(set(outs)):
        perms = list(itertools.permutations(range(len(nodes)))) if len(nodes) <= 3 else None
        tried = 0
        for ps in case["perm_seed"]:
            if perms is not None:
                order = list(perms[ps % len(perms)])
            else:
                order = list(range(len(nodes)))
                # deterministic shuffle from the drawn integer
                for i in range(len(order) - 1, 0, -1):
                    j = (ps * 7919 + i * 104729) % (i + 1)
                    order[i], order[j] = order[j], order[i]
            ctx = Ctx(compact=True)
            permuted = [nodes[i] for i in order]
            # the node list INSIDE a mapping node is a node list too
            def inner_order(k):
                idx = list(range(k))
                return idx[::-1] if tried == 0 else sorted(idx, key=lambda j: ((ps * 31 + j * 17) % 7, j))

            permuted = [({**x, "graph": {**x["graph"], "nodes": [x["graph"]["nodes"][j] for j in inner_order(len(x["graph"]["nodes"]))]}}
                         if x["k"] == "graph" and x.get("map") else x) for x in permuted]
            g = make_graph(ctx, {**gspec, "nodes": permuted}, "sync")
            out = run_sync(g, vals, max_iterations=mi, error_handling="continue", **kw)
            tried += 1
            if _norm(out, ctx) != base_norm:
                raise Violation("c02.node_order", f"order={order} base={base.brief()} permuted={out.brief()}")
        labels.add("permuted")

    nontrivial = (max_parked_bodies[0] >= 2 and nsched[0] - 3 >= 2) or sibling_ok_with_failure[0]
    if max_parked_bodies[0] >= 2:
        labels.add("concurrent_bodies>=2")
    ev.case(case, nontrivial, sorted(labels))
