"""C03 - gate routing: a gated node runs only while a controlling gate selects it.  DESIGN.md section 4/C03."""
from __future__ import annotations

from hypothesis import strategies as st

from .. import gen, ref
from ..gen import prob
from ..build import Ctx, J, crc, make_graph
from ..core import Violation
from ..observe import Recorder, run_sync
from ..sched import run_scheduled

ID = "C03"
LEVEL = "exploration"
BUDGET = {"quick": 3200, "thorough": 48000}
SHARDS = {"quick": 16, "thorough": 16}
RULE = (
    "Hypothesis-generated control-flow programs: 2-6 function nodes plus 1-4 gates (if/else and route; single/multi target, "
    "fallback, None, END; default_open either way; targets drawn from a small pool so several gates share targets), optional "
    "data cycle, optional emit/wait_for pair, optionally wrapped as a nested graph node; SyncRunner and AsyncRunner under a "
    "Hypothesis-drawn completion schedule. Oracle: trace monitor over the public event stream (NodeStart / RouteDecision / "
    "NodeEnd per run): every start of a gated node needs a controlling gate whose latest decision names it or a default-open "
    "gate that has not executed; no observed async superstep holds a gate and one of its targets; reported decisions equal "
    "the decision table applied to the gate's logged arguments (with fallback); for acyclic programs with closed gates the "
    "executed targets are exactly the selected ones and unselected targets contribute no output. Non-trivial = a decision "
    "that excluded a node whose data inputs were available, or a target shared by >=2 gates whose decisions disagreed."
)
ASSUMPTIONS = [
    "superstep membership is observed for the async runner only (first quiescent snapshot); the sync runner is tied to it by C02",
    "early start of targets of default-open gates is allowed (documented behaviour)",
]


@st.composite
def _case(draw, tier):
    if prob(draw, 0.15):
        nodes, labels = draw(_chained_gates_in_loop())
    else:
        nodes, labels = draw(gen.g2_nodes(max_nodes=6, p_fail=0.0, min_gates=1, max_gates=4, p_cycle=0.3, p_signal=0.3))
    return {
        "nodes": nodes,
        "labels": labels,
        "nest": prob(draw, 0.25),
        "rename_outputs": draw(st.booleans()),
        "omit": draw(st.lists(st.integers(0, 7), max_size=3)),
        "max_iter": draw(st.sampled_from([6, 12, 25])),
        "entry_pick": draw(st.integers(0, 7)),
        "sched": draw(st.lists(st.integers(0, 7), max_size=40)),
        "explicit": draw(st.sampled_from([None, None, "data", "data+gate"])),
        "cached_gates": prob(draw, 0.35),
    }


@st.composite
def _chained_gates_in_loop(draw):
    """An outer gate routes to an INNER gate, to a side node or to END; the inner gate picks one of 2-3 branches, one of which
    rewrites the looped value.  Whenever the outer gate routes away after the value changed, the inner gate is stale but does not run
    again: its earlier decision is void, and it has decided in this run, so none of its branches may start."""
    nb = draw(st.integers(2, 3))
    branches = [f"br{i}" for i in range(nb)]
    # exactly one branch advances the looped value (several producers of it that reach each other are not accepted as exclusive)
    nodes = [{"k": "func", "name": b, "params": ["v"], "defaults": {}, "outs": ["v" if i == 0 else f"w{i}"]} for i, b in enumerate(branches)]
    if nb == 2 and draw(st.booleans()):
        inner = {"k": "ifelse", "name": "inner", "params": ["v"], "defaults": {}, "t": branches[0], "f": branches[1], "table": draw(st.lists(st.booleans(), min_size=1, max_size=3)),
                 "default_open": draw(st.booleans())}
    else:
        inner = {"k": "route", "name": "inner", "params": ["v"], "defaults": {}, "targets": list(draw(st.permutations(branches))), "fallback": None, "multi": False,
                 "table": draw(st.lists(st.sampled_from(branches + [None]), min_size=1, max_size=3)), "default_open": draw(st.booleans())}
    side = {"k": "func", "name": "side", "params": ["v"], "defaults": {}, "outs": ["s"]}
    outer = {"k": "route", "name": "outer", "params": ["v"], "defaults": {}, "targets": list(draw(st.permutations(["inner", "side", "END"]))), "fallback": None, "multi": False,
             "table": draw(st.lists(st.sampled_from(["inner", "inner", "side", "END", None]), min_size=2, max_size=4)), "default_open": draw(st.booleans())}
    return draw(gen.permuted(nodes + [inner, side, outer])), ["cycle", "gate_targets_gate", "chained_gates_in_loop"]


def strategy(tier):
    return _case(tier)


def decision_of(g, args):
    """The decision the IR dictates for gate spec g on argument tuple args (names, 'END', list or None)."""
    d = g["table"][crc(args) % len(g["table"])]
    if g["k"] == "ifelse":
        return g["t"] if d else g["f"]
    if d is None and g.get("fallback") is not None:
        return g["fallback"]
    return d


def _dec_norm(d):
    """hypergraph decision -> IR form."""
    from hypergraph import END

    if d is END:
        return "END"
    if isinstance(d, list):
        return ["END" if x is END else x for x in d]
    return d


def _names(d, t):
    if d is None or d == "END":
        return False
    if isinstance(d, list):
        return t in d
    return d == t


def _targets(g):
    ts = [g["t"], g["f"]] if g["k"] == "ifelse" else list(g["targets"]) + ([g["fallback"]] if g.get("fallback") else [])
    return [t for t in dict.fromkeys(ts) if t != "END"]


def monitor(events, nodes, ctx, tag, graph_name, stats, async_steps, supplied=None):
    from hypergraph.events.types import NodeEndEvent, NodeErrorEvent, NodeStartEvent, RouteDecisionEvent, RunStartEvent

    gates = {n["name"]: n for n in nodes if n["k"] in ("ifelse", "route")}
    ctrl: dict = {}
    for g in gates.values():
        for t in _targets(g):
            ctrl.setdefault(t, []).append(g["name"])
    runs: dict = {}
    for e in events:
        if isinstance(e, RunStartEvent) and (e.graph_name or None) == graph_name:
            runs[e.run_id] = []
        if getattr(e, "run_id", None) in runs:
            runs[e.run_id].append(e)
    by_name = {n["name"]: n for n in nodes}
    for run_id, evs in runs.items():
        latest: dict = {}
        executed: set = set()
        ndec: dict = {}
        step: list = []
        ended = True
        available = set(supplied or ())
        produced_now: set = set()
        started: set = set()
        for e in evs:
            if isinstance(e, NodeStartEvent):
                if ended:
                    step = []
                    ended = False
                    available |= produced_now
                    produced_now = set()
                step.append(e.node_name)
                started.add(e.node_name)
                t = e.node_name
                if async_steps and supplied is not None and t in ctrl:
                    # "when a gate and its targets become runnable together the gate decides first": a controlling gate that has all its
                    # inputs, has not run yet and is itself free to run (no controlling gate of its own, or only default-open ones that
                    # have not decided) keeps its targets waiting - also while its own parent gate holds it back for this step
                    for gname in ctrl[t]:
                        gs = gates[gname]
                        if gname in started or not all(w_ in available for w_ in gs.get("wait_for", [])):
                            continue  # (a gate that waits for a name is pending once that name exists - also while it is postponed for one step
                            # because the name's producer runs in this very step)
                        if not all(q in available or q in gs.get("defaults", {}) for q in gs.get("params", [])):
                            continue
                        parents = ctrl.get(gname, [])
                        if all(gates[pg].get("default_open", True) and pg not in executed for pg in parents):
                            raise Violation("c03.target_started_beside_pending_gate", f"[{tag}] {t} started in superstep {step} while its gate {gname} had all its inputs, had not decided yet and was free to run"
                                            f"{' (held back only by its own parent gate ' + str(parents) + ')' if parents else ''}: the gate decides first", chained=bool(parents))
                if t in ctrl:
                    ok = False
                    blockers = []
                    for gname in ctrl[t]:
                        if gname in latest:
                            if _names(latest[gname], t):
                                ok = True
                            else:
                                blockers.append((gname, latest[gname]))
                        elif gname not in executed and gates[gname].get("default_open", True):
                            ok = True
                        else:
                            blockers.append((gname, "closed-undecided" if gname not in executed else "executed-no-decision"))
                    if not ok:
                        raise Violation(
                            "c03.started_unselected",
                            f"[{tag}] node {t} started although no controlling gate selects it: {J(blockers)}",
                            reason="closed_undecided" if all(b[1] == "closed-undecided" for b in blockers) else "decision_excludes",
                        )
                    if blockers:
                        stats["shared_disagree"] += 1
                if async_steps:
                    for gname in gates:
                        if gname in step:
                            for t2 in _targets(gates[gname]):
                                if t2 in step:
                                    raise Violation("c03.gate_and_target_same_step", f"[{tag}] superstep {step} holds gate {gname} and its target {t2}")
            elif isinstance(e, RouteDecisionEvent):
                d = _dec_norm(e.decision)
                g = gates.get(e.node_name)
                if g is not None:
                    k = ndec.get(e.node_name, 0)
                    ndec[e.node_name] = k + 1
                    calls = ctx.calls(ref.fid(g))
                    latest[e.node_name] = d
                    stats["decisions"] += 1
            elif isinstance(e, (NodeEndEvent, NodeErrorEvent)):
                ended = True
                if e.node_name in gates:
                    executed.add(e.node_name)
                if isinstance(e, NodeEndEvent) and e.node_name in by_name:
                    produced_now |= set(by_name[e.node_name].get("outs", [])) | set(by_name[e.node_name].get("emit", []))
    return runs


def _acyclic(nodes):
    """True when data + control + ordering dependencies of the IR have no cycle."""
    prod = {}
    for n in nodes:
        for o in n.get("outs", []) + n.get("emit", []):
            prod.setdefault(o, []).append(n["name"])
    succ = {n["name"]: set() for n in nodes}
    for n in nodes:
        for p in n.get("params", []) + n.get("wait_for", []):
            for s in prod.get(p, []):
                succ[s].add(n["name"])
        if n["k"] in ("ifelse", "route"):
            for t in _targets(n):
                succ[n["name"]].add(t)
    state = {}

    def dfs(x):
        state[x] = 1
        for y in succ[x]:
            if state.get(y) == 1:
                return False
            if y not in state and not dfs(y):
                return False
        state[x] = 2
        return True

    return all(dfs(x) for x in succ if x not in state)


def _values_for(g, case):
    sp = g.inputs
    vals = {p: ("in", p, 0) for p in sp.required}
    kw = {}
    if sp.entrypoints:
        eps = sorted(sp.entrypoints)
        kw["entrypoint"] = eps[case["entry_pick"] % len(eps)]
        for ps in sp.entrypoints.values():
            for p in ps:
                vals[p] = ("in", p, 0)
    opt = list(sp.optional)
    omit = {opt[i % len(opt)] for i in case["omit"]} if opt else set()
    for p in opt:
        if p not in omit:
            vals[p] = ("in", p, 1)
    return vals, kw


def check_case(case, ev):
    nodes = case["nodes"]
    labels = set(case["labels"])
    gates = [n for n in nodes if n["k"] in ("ifelse", "route")]
    inner_spec = {"nodes": nodes}
    out_ren = {}
    if case["nest"]:
        labels.add("nested")
        wrapper = {"k": "graph", "name": "inner", "graph": {"nodes": nodes, "name": "inner"}}
        if case.get("rename_outputs"):
            outs_all = list(dict.fromkeys(o for n in nodes for o in n.get("outs", [])))
            out_ren = {o: o + "_r" for o in outs_all}
            if out_ren:
                wrapper["renames"] = [{"kind": "outputs", "map": out_ren}]
                labels.add("nested_renamed_outputs")
        gspec = {"nodes": [wrapper]}
        gname = "inner"
    else:
        gspec = inner_spec
        gname = None
    stats = {"shared_disagree": 0, "decisions": 0}
    acyc = _acyclic(nodes)
    if acyc:
        labels.add("acyclic")
    excluded_with_inputs = 0
    for runner in ("sync", "async"):
        ctx = Ctx(compact=True)
        try:
            g = make_graph(ctx, gspec, "async" if runner == "async" else "sync")
            inner_g = g if not case["nest"] else make_graph(Ctx(compact=True), inner_spec, "sync")
        except Exception as e:  # noqa: BLE001
            ev.discard("construct:" + type(e).__name__ + ":" + str(e).split("\n")[0][:50])
            return
        vals, kw = _values_for(g, case)
        if runner == "sync":
            rec = Recorder()
            out = run_sync(g, vals, max_iterations=case["max_iter"], error_handling="continue", event_processors=[rec], **kw)
            events = rec.events
        else:
            out, sched = run_scheduled(ctx, g, vals, case["sched"], max_iterations=case["max_iter"], error_handling="continue", **kw)
            events = sched.hold.events
            if out.status == "deadlock":
                raise Violation("c03.deadlock", f"[async] {out.error}")
        if out.status == "raised":
            labels.add("rejected:" + type(out.error).__name__)
            continue
        tag = f"{runner}{' nested' if case['nest'] else ''}"
        monitor(events, nodes, ctx, tag, gname, stats, async_steps=(runner == "async"), supplied=set(vals) if not case["nest"] else None)

        # through a (renamed) wrapper: a node that never ran contributes no output to the outer result either
        if case["nest"] and out.status == "completed":
            for n in nodes:
                if n["k"] == "func" and not ctx.count(ref.fid(n)):
                    for o in n.get("outs", []):
                        ext = out_ren.get(o, o)
                        if ext in out.values and ext not in vals and o not in vals:  # a caller-supplied entry value stays visible
                            raise Violation("c03.output_of_unselected", f"[{tag}] inner node {n['name']} never ran but the outer result holds {ext!r}={J(out.values[ext])}", nested=True)
        # reported decisions == decision table applied to the logged arguments
        from hypergraph.events.types import RouteDecisionEvent

        seen: dict = {}
        for e in events:
            if isinstance(e, RouteDecisionEvent) and (e.graph_name or None) == gname:
                gs = next((x for x in gates if x["name"] == e.node_name), None)
                if gs is None:
                    continue
                k = seen.get(e.node_name, 0)
                seen[e.node_name] = k + 1
        for gs in gates:
            calls = ctx.calls(ref.fid(gs))
            decs = [_dec_norm(e.decision) for e in events if isinstance(e, RouteDecisionEvent) and e.node_name == gs["name"] and (e.graph_name or None) == gname]
            want = [decision_of(gs, a) for a in calls]
            if out.status == "completed" and runner == "sync" and not case["nest"] and decs != want:
                raise Violation("c03.decision_mismatch", f"[{tag}] gate {gs['name']} reported {J(decs)} but its table dictates {J(want)} for args {J(calls)}")

        # derived clause on completed acyclic runs
        if out.status == "completed" and acyc and not case["nest"]:
            ran = {n["name"] for n in nodes if ctx.count(ref.fid(n))}
            produced = {}
            for n in nodes:
                for o in n.get("outs", []) + n.get("emit", []):
                    produced.setdefault(o, []).append(n["name"])
            final = {}
            for gs in gates:
                calls = ctx.calls(ref.fid(gs))
                if calls:
                    final[gs["name"]] = decision_of(gs, calls[-1])
            bound_or_given = set(vals)
            for t in [n for n in nodes if n["k"] == "func"]:
                ctrl = [gs for gs in gates if t["name"] in _targets(gs)]
                if not ctrl:
                    continue
                avail = all(
                    (p in bound_or_given) or (p in t.get("defaults", {})) or any(s in ran for s in produced.get(p, []))
                    for p in t.get("params", [])
                ) and all(any(s in ran for s in produced.get(w, [])) for w in t.get("wait_for", []))
                selected_final = any(gs["name"] in final and _names(final[gs["name"]], t["name"]) for gs in ctrl)
                all_closed = all(not gs.get("default_open", True) for gs in ctrl)
                # (a gate that also WAITS for a signal cannot simply decide again when one of its data inputs changes after it
                # ran: its decision is void from then on while it is owed no new run - its targets stay shut, by C17's rule)
                if selected_final and avail and t["name"] not in ran and not any(gs.get("wait_for") for gs in ctrl):
                    raise Violation("c03.selected_not_run", f"[{tag}] {t['name']} is selected by a final decision {J(final)} and its inputs exist, but it never ran")
                if all_closed and avail and not selected_final and not any(
                    _names(decision_of(gs, a), t["name"]) for gs in ctrl for a in ctx.calls(ref.fid(gs))
                ):
                    excluded_with_inputs += 1
                    if t["name"] in ran:
                        raise Violation("c03.unselected_ran", f"[{tag}] {t['name']} ran although no decision of its closed gates ever named it")
                if t["name"] not in ran:
                    for o in t.get("outs", []):
                        if o in out.values and o not in vals:
                            raise Violation("c03.output_of_unselected", f"[{tag}] output {o} of never-executed node {t['name']} appears in the result")
    # ---- the gates are cacheable and the program runs twice on one runner that carries a cache: the second run is routed by
    # restored decisions (also None / END, also the same arguments met again inside one run) and must take the same course
    if case.get("cached_gates") and not case["nest"]:
        from hypergraph import AsyncRunner, SyncRunner
        from hypergraph.cache import InMemoryCache

        from ..observe import call_multiset, run_async

        cspec = {**inner_spec, "nodes": [({**n, "cache": True} if n["k"] in ("ifelse", "route") else n) for n in nodes]}
        funcs = {ref.fid(n) for n in nodes if n["k"] == "func"}
        ctx_u = Ctx(compact=True)
        try:
            g_u = make_graph(ctx_u, inner_spec, "sync")
        except Exception:  # noqa: BLE001
            g_u = None
        if g_u is not None:
            vals_u, kw_u = _values_for(g_u, case)
            base = run_sync(g_u, vals_u, max_iterations=case["max_iter"], error_handling="continue", **kw_u)
            want = (base.status, base.values, call_multiset([c_ for c_ in ctx_u.log if c_[0] in funcs]))
            for rk in ("sync", "async"):
                ctx_c = Ctx(compact=True)
                g_c = make_graph(ctx_c, cspec, "sync")
                runner_c = SyncRunner(cache=InMemoryCache()) if rk == "sync" else AsyncRunner(cache=InMemoryCache())
                for rep in (0, 1):
                    ctx_c.reset()
                    oc = (run_sync if rk == "sync" else run_async)(g_c, vals_u, runner=runner_c, max_iterations=case["max_iter"], error_handling="continue", **kw_u)
                    got = (oc.status, oc.values, call_multiset([c_ for c_ in ctx_c.log if c_[0] in funcs]))
                    if base.status != "raised" and got != want:
                        raise Violation("c03.cached_gates_route_differently", f"[{rk}, cacheable gates, run {rep} ({'warm' if rep else 'cold'})] {oc.brief()} with function calls {sorted(map(repr, got[2].items()))[:10]}; "
                                        f"without a cache: {base.brief()} with {sorted(map(repr, want[2].items()))[:10]}", warm=bool(rep))
            labels.add("cacheable_gates_two_runs")
    # ---- the same program with its topology DECLARED (edges=[...]: every data edge that inference finds, optionally the
    # gate -> target pairs too): same outcome, same invocations, and the same routing discipline
    outs_all = [o for n in nodes for o in n.get("outs", []) + n.get("emit", [])]
    if case.get("explicit") and not case["nest"] and len(outs_all) == len(set(outs_all)):
        ctx_i = Ctx(compact=True)
        g_i = make_graph(ctx_i, inner_spec, "sync")
        vals_i, kw_i = _values_for(g_i, case)
        base = run_sync(g_i, vals_i, max_iterations=case["max_iter"], error_handling="continue", **kw_i)
        ctx_e = Ctx(compact=True)
        try:
            g_e = make_graph(ctx_e, {**inner_spec, "explicit": case["explicit"]}, "sync")
        except Exception as e:  # noqa: BLE001 - declared topologies are validated by other rules; nothing to compare then
            ev.count("explicit_edges_rejected:" + type(e).__name__)
            g_e = None
        if g_e is not None and base.status != "raised":
            rec = Recorder()
            oe = run_sync(g_e, vals_i, max_iterations=case["max_iter"], error_handling="continue", event_processors=[rec], **kw_i)
            from ..observe import call_multiset

            if oe.status == "raised" and type(oe.error).__name__ in ("MissingInputError", "ValueError"):
                ev.count("explicit_edges_other_input_contract")  # declared topologies classify inputs by their own rules
            else:
                if (oe.status, oe.values, call_multiset(ctx_e.log)) != (base.status, base.values, call_multiset(ctx_i.log)):
                    raise Violation("c03.explicit_edges_differ", f"[edges={case['explicit']}] with the inferred topology declared by hand the run gives {oe.brief()} / calls {sorted(map(repr, ctx_e.log))[:8]}; "
                                    f"inferred: {base.brief()} / calls {sorted(map(repr, ctx_i.log))[:8]}", gate_edges=case["explicit"] == "data+gate")
                monitor(rec.events, nodes, ctx_e, f"sync edges={case['explicit']}", None, stats, async_steps=False)
                labels.add("explicit_edges:" + case["explicit"])
    nontrivial = excluded_with_inputs > 0 or stats["shared_disagree"] > 0
    if excluded_with_inputs:
        labels.add("excluded_with_inputs")
    if stats["shared_disagree"]:
        labels.add("shared_target_disagreement")
    ev.count("decisions_observed", stats["decisions"])
    ev.case(case, nontrivial, sorted(labels))
