"""C01 - acyclic dataflow: every output equals the dependency-order evaluation.  DESIGN.md section 4/C01."""
from __future__ import annotations

from hypothesis import strategies as st

from .. import gen, ref
from ..gen import prob
from ..build import Ctx, J, T, make_graph
from ..core import Violation
from ..observe import run_async, run_sync
from ..sched import run_scheduled

ID = "C01"
LEVEL = "exploration"
BUDGET = {"quick": 3200, "thorough": 64000}
SHARDS = {"quick": 16, "thorough": 16}
RULE = (
    "Hypothesis-generated acyclic gate-free programs (2-9 nodes quick, 2-12 thorough; 0-3 params per node drawn from earlier "
    "outputs or fresh inputs; 0-3 outputs; defaults per parameter name; random node-list permutation; bindings, run-time "
    "values, optional select, optional non-conflicting injection of an intermediate value) executed by SyncRunner, AsyncRunner "
    "over sync functions and AsyncRunner over async functions under a Hypothesis-drawn completion schedule; values, last-invocation arguments and "
    "invocation counts compared with an independent dependency-order evaluator over symbolic terms. Non-trivial = >=3 nodes, "
    ">=2 edges and at least one of {diamond, multi-output consumed at position>=1, default shadowed by edge, binding shadowed "
    "by run-time value, unsatisfiable node}. Distinct = sha256 of canonical case JSON."
)
ASSUMPTIONS = [
    "node functions are the harness's exec-generated functions returning symbolic terms (wiring oracle is complete for them)",
    "invocation count is only demanded for single-shot nodes (no fallback on any upstream-fed parameter, transitively)",
]


@st.composite
def _case(draw, max_nodes):
    c = draw(gen.g1_case(2, max_nodes, p_const=0.2))
    c["sched"] = draw(st.lists(st.integers(0, 7), max_size=24))
    # optional non-conflicting injection of an intermediate value (only consulted when the validator accepts it)
    c["inject"] = draw(st.booleans()) and prob(draw, 0.3)
    c["inject_pick"] = draw(st.integers(0, 31))
    # the same program with its functions declared under swapped parameter names and renamed back in one call
    c["declared_swapped"] = prob(draw, 0.3)
    # side-effect-only nodes written as generator functions (streaming / logging style): their body runs when drained
    c["side_effect_generators"] = prob(draw, 0.3)
    # runners that carry a cache: a drawn subset of nodes is cacheable, one of them may also emit an ordering signal a later node
    # waits for; the graph is run twice on the same runner (second run: warm cache)
    c["cached"] = draw(st.lists(st.integers(0, 11), max_size=4)) if prob(draw, 0.35) else None
    c["signal"] = [draw(st.integers(0, 11)), draw(st.integers(0, 11))]
    # an interval of the dependency order run as ONE nested graph node (bindings stay on the outer graph): same values
    c["nest"] = [draw(st.integers(0, 11)), draw(st.integers(1, 3))] if prob(draw, 0.35) else None
    return c


def strategy(tier):
    return _case(9 if tier == "quick" else 12)


def _expected(case):
    nodes = case["nodes"]
    values = T(case["values"])
    bound = T(case["bind"])
    env, args = ref.eval_dag(nodes, values, bound)
    return env, args, values, bound


def _oracle(tag, case, out, ctx, env, args, ss, select, allow_extra=frozenset()):
    nodes = case["nodes"]
    if out.status != "completed":
        raise Violation("c01.not_completed", f"[{tag}] {out.brief()} case={J(case)}", runner=tag.split(":")[0])
    exp = {k: v for k, v in env.items() if select is None or k in select}
    if {k: v for k, v in out.values.items() if k in exp or k not in allow_extra} != exp:
        missing = sorted(set(exp) - set(out.values))
        extra = sorted(set(out.values) - set(exp) - set(allow_extra))
        wrong = sorted(k for k in exp if k in out.values and out.values[k] != exp[k])
        raise Violation(
            "c01.values",
            f"[{tag}] missing={missing} extra={extra} wrong={[(k, J(out.values[k]), J(exp[k])) for k in wrong[:3]]}",
            what="missing" if missing else ("extra" if extra else "wrong"),
        )
    for n in nodes:
        name = n["name"]
        calls = ctx.calls(ref.fid(n))
        want = args.get(name)
        if want is None:
            if calls:
                raise Violation("c01.ran_unsatisfiable", f"[{tag}] node {name} ran with {J(calls)} but its inputs cannot be satisfied")
            continue
        if not calls:
            raise Violation("c01.did_not_run", f"[{tag}] node {name} never ran; expected args {J(want)}")
        if calls[-1] != want:
            raise Violation("c01.last_args", f"[{tag}] node {name} last ran with {J(calls[-1])}, expected {J(want)}")
        if name in ss and len(calls) != 1:
            raise Violation("c01.count", f"[{tag}] single-shot node {name} ran {len(calls)} times: {J(calls)}")


def check_case(case, ev):
    nodes = case["nodes"]
    select = case.get("select")
    built = gen.present(nodes, "swap", keep_fid=True) if case.get("declared_swapped") else nodes
    if case.get("side_effect_generators"):
        built = [({**n, "gen_style": True, "agen": True} if n["k"] == "func" and not n.get("outs") else n) for n in built]
    gspec = {"nodes": built, "bind": case["bind"], "select": select}
    env, args, values, bound = _expected(case)
    ss = ref.single_shot(nodes, values, bound)
    labels, nedges = ref.shape_labels(nodes)
    unsat = [n["name"] for n in nodes if args.get(n["name"]) is None]
    if unsat:
        labels.add("unsatisfiable_node")
    if any(k in values for k in bound):
        labels.add("binding_shadowed_by_runtime")
    if select is not None:
        labels.add("select")
    if any("ret" in n for n in nodes):
        labels.add("falsy_or_None_output")
    if case.get("side_effect_generators") and any(not n.get("outs") for n in nodes):
        labels.add("side_effect_only_generator_node")
    if case.get("declared_swapped") and any(len(n["params"]) >= 2 for n in nodes):
        labels.add("declared_under_swapped_parameter_names")

    for flavour, runner in (("sync", "sync"), ("sync", "async"), ("async", "async")):
        ctx = Ctx()
        g = make_graph(ctx, gspec, flavour)
        if runner == "sync":
            out = run_sync(g, values)
        elif flavour == "sync":
            out = run_async(g, values)
        else:
            out, _trace = run_scheduled(ctx, g, values, case.get("sched", []))
        _oracle(f"{runner}:{flavour}", case, out, ctx, env, args, ss, select)

    # the same graph OBJECT run a second time with fewer inputs: what the first run supplied for an optional name is gone, the
    # bound value / signature default applies again
    ctx = Ctx()
    g = make_graph(ctx, gspec, "sync")
    dropped = [p_ for p_ in values if p_ in set(g.inputs.optional)]
    if dropped:
        run_sync(g, values)
        ctx.reset()
        v2 = {k: v for k, v in values.items() if k not in dropped}
        out = run_sync(g, v2)
        env2, args2 = ref.eval_dag(nodes, v2, bound)
        _oracle("sync:second_run_with_fewer_inputs", case, out, ctx, env2, args2, ref.single_shot(nodes, v2, bound), select)
        labels.add("second_run_with_fewer_inputs")

    # the program on runners that carry a cache (some nodes cacheable, one cached node possibly emitting an ordering signal that a
    # later node waits for), run twice on the same runner: both runs return the dependency-order values
    if case.get("cached") is not None:
        from hypergraph import AsyncRunner, SyncRunner
        from hypergraph.cache import InMemoryCache

        runnable = [n["name"] for n in nodes if args.get(n["name"]) is not None]
        cn = {nodes[i % len(nodes)]["name"] for i in case["cached"]} or {nodes[0]["name"]}
        built2 = [({**n, "cache": True} if n["name"] in cn and n["k"] == "func" and not n.get("gen_style") else dict(n)) for n in built]
        # an ordering signal only where nothing starts early (every runnable node is single-shot), from a runnable emitter to a later node
        order_ok = set(runnable) <= ss and len(runnable) >= 2
        if order_ok:
            i, j = sorted(x % len(runnable) for x in case["signal"])
            if i != j:
                a, b = runnable[i], runnable[j]
                if a in ref.descendants(nodes, {b}):
                    a, b = b, a  # the waiter must not be upstream of the emitter
                for n in built2:
                    if n["name"] == a:
                        n["emit"] = ["c01sig"]
                        if n["k"] == "func" and not n.get("gen_style"):
                            n["cache"] = True
                    if n["name"] == b:
                        n["wait_for"] = ["c01sig"]
                labels.add("cached_emitter_with_waiter")
        exp = {k: v for k, v in env.items() if select is None or k in select}
        for rk in ("sync", "async"):
            ctx = Ctx()
            g = make_graph(ctx, {**gspec, "nodes": built2}, "sync")
            runner = SyncRunner(cache=InMemoryCache()) if rk == "sync" else AsyncRunner(cache=InMemoryCache())
            for rep in (0, 1):
                out = (run_sync if rk == "sync" else run_async)(g, values, runner=runner)
                if out.status != "completed" or out.values != exp:
                    missing = sorted(set(exp) - set(out.values or {}))
                    raise Violation("c01.values", f"[{rk}:cache run {rep} ({'warm' if rep else 'cold'}), cacheable={sorted(cn)}] {out.brief()} expected {J(exp)}; missing={missing}",
                                    what="missing" if missing else "wrong", cached=True)
        labels.add("cache_two_runs")

    # an interval of a dependency order wrapped as a nested graph node: composition changes no value; in particular a value bound on
    # the OUTER graph still beats a signature default of a consumer that now sits inside the nested graph
    if case.get("nest") is not None and len(nodes) >= 2 and not unsat:  # (a wrapper is one unit of scoping: it needs all its inputs)
        dep = ref.depth(nodes)
        order_t = sorted(nodes, key=lambda n: (dep[n["name"]], n["name"]))
        a = case["nest"][0] % len(order_t)
        b = min(len(order_t), a + case["nest"][1])
        S = order_t[a:b]
        if all(n["k"] == "func" and not n.get("gen_style") for n in S):
            built_by_name = {n["name"]: n for n in built}
            wrapper = {"k": "graph", "name": "c01w", "graph": {"name": "c01w", "nodes": [dict(built_by_name[n["name"]]) for n in S]}}
            outer_nodes = [dict(built_by_name[n["name"]]) for n in order_t[:a]] + [wrapper] + [dict(built_by_name[n["name"]]) for n in order_t[b:]]
            exp = {k: v for k, v in env.items() if select is None or k in select}
            for rk in ("sync", "async"):
                ctx = Ctx()
                try:
                    gN = make_graph(ctx, {**gspec, "nodes": outer_nodes}, "sync")
                except Exception as e:  # noqa: BLE001 - whether this interval can be nested at all is C05's subject
                    ev.count("nest_variant_rejected:" + type(e).__name__)
                    break
                outN = (run_sync if rk == "sync" else run_async)(gN, values)
                if outN.status != "completed" or outN.values != exp:
                    wrong = sorted(k for k in set(exp) | set(outN.values or {}) if (outN.values or {}).get(k, "<absent>") != exp.get(k, "<absent>"))
                    raise Violation("c01.values", f"[{rk}: nodes {[n['name'] for n in S]} run as one nested graph node, bind={J(bound)}] {outN.brief()} differs from the dependency-order values in {wrong}: expected "
                                    f"{J({k: exp.get(k, '<absent>') for k in wrong})}", what="wrong", nested=True)
            else:
                labels.add("interval_as_nested_graph_node")

    # injection of an intermediate value with on_internal_override="ignore" (only when the validator accepts it):
    # the statement's precedence still decides every argument (upstream output of a runnable producer first, then
    # the run-time value), so the same reference applies with the injected names among the run-time values.
    if case.get("inject"):
        prod = ref.producers(nodes)
        cands = sorted(prod)
        if cands:
            name = cands[case["inject_pick"] % len(cands)]
            p = prod[name]
            inj = {o: ("inj", o) for o in p["outs"]}
            v2 = {**values, **inj}
            ctx = Ctx()
            g = make_graph(ctx, gspec, "sync")
            out = run_sync(g, v2, on_internal_override="ignore")
            if out.status == "raised" and isinstance(out.error, ValueError) and "internal override" in str(out.error):
                ev.discard("inject_rejected_by_validator")
            elif out.status == "raised" and type(out.error).__name__ == "MissingInputError":
                ev.discard("inject_missing_input")
            else:
                labels.add("injected_intermediate")
                env2, args2 = ref.eval_dag(nodes, v2, bound)
                ss2 = ref.single_shot(nodes, v2, bound)
                _oracle("sync:inject", case, out, ctx, env2, args2, ss2, select, allow_extra=set(inj))

    nontrivial = len(nodes) >= 3 and nedges >= 2 and bool(
        labels & {"diamond", "multi_output_pos>=1", "default_shadowed_by_edge", "binding_shadowed_by_runtime", "unsatisfiable_node"}
    )
    ev.case(case, nontrivial, sorted(labels))
