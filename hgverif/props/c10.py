"""C10 - map: one result per input combination, in input order, equal to a single run.  DESIGN.md section 4/C10."""
from __future__ import annotations

import copy

from hypothesis import strategies as st

from .. import ref
from ..build import Ctx, Injected, J, make_graph
from ..core import Violation
from ..gen import prob
from ..observe import run_async, run_sync
from ..sched import run_scheduled
from ..observe import arun as _arun

ID = "C10"
LEVEL = "exploration"
BUDGET = {"quick": 1792, "thorough": 24000}
SHARDS = {"quick": 16, "thorough": 16}
RULE = (
    "Hypothesis-generated map calls over an inner graph k(p..., bc) -> key; if/else gate on key -> ev | od; ev fails for some keys; "
    "optional node mutating a broadcast list: 1-3 mapped parameters, map_over order drawn independently of the values-dict order, "
    "zip (equal and unequal lengths) / product, list lengths 0-4, broadcast value, clone in {False, True, [name]}, both "
    "error_handling modes, max_concurrency in {None,1,2,3}; through runner.map and through a graph node configured with map_over "
    "(optionally with swap-renamed inputs/outputs applied after map_over, and nested one level deeper); SyncRunner, AsyncRunner, "
    "and AsyncRunner under the harness scheduler with drawn / adversarial completion orders. Oracle: combinations from an "
    "independent zip/product expansion in map_over order; len(results) == len(combinations); results[i] equals a single "
    "run(continue) on combination i (status, values, failing node and arguments); mapping-node outputs are lists with exactly one "
    "entry per combination, None for failed or unproduced; raise mode surfaces the lowest-index failing item's exception; cloned "
    "broadcast values are pristine per item and the caller's object is unchanged; unequal zip lengths raise ValueError. "
    "Non-trivial = >=2 items taking different branches, or >=1 failing item among >=3, or a schedule that completed items out of order."
)
ASSUMPTIONS = ["with clone=False a mutated broadcast value is shared by design; the mutating node is only generated when it is cloned"]


@st.composite
def _case(draw, tier):
    nparams = draw(st.integers(1, 3))
    ps = [f"p{i}" for i in range(nparams)]
    mode = draw(st.sampled_from(["zip", "product"]))
    if mode == "zip":
        L = draw(st.sampled_from([0, 1, 2, 3, 3, 4, 4]))
        lens = [L] * nparams
        if nparams >= 2 and prob(draw, 0.1):
            lens[-1] = L + 1  # unequal: must raise ValueError
    else:
        lens = [draw(st.sampled_from([0, 1, 1, 2, 2, 3])) for _ in ps]
    lists = {p: [draw(st.integers(0, 9)) for _ in range(n)] for p, n in zip(ps, lens)}
    clone = draw(st.sampled_from([False, False, True, ["cfg"], ["bc"]]))
    return {
        "ps": ps, "order": draw(st.permutations(ps)), "mode": mode, "lists": lists, "bc": draw(st.integers(0, 1)),
        "failmod": draw(st.sampled_from([2, 3, 5, 1000])), "table": draw(st.lists(st.booleans(), min_size=2, max_size=4)),
        "clone": clone, "mut": clone is True or clone == ["cfg"],
        "mc": draw(st.sampled_from([None, 1, 2, 3])), "sched": draw(st.lists(st.integers(0, 7), max_size=60)), "adversarial": draw(st.booleans()),
        "rename": draw(st.sampled_from([None, "swap_inputs", "swap_outputs", "both"])), "deep": prob(draw, 0.25),
        # shape of the mutated broadcast value (an immutable container may still hold a mutable), renaming the cloned input,
        # and whether map_over is configured before or after the renames
        # the inner graph's own default selection: a subset of its outputs in an order that is NOT their declaration order
        "inner_select": draw(st.permutations(["key", "e", "o"]))[: draw(st.integers(1, 3))] if prob(draw, 0.3) else None,
        "cfg_shape": draw(st.sampled_from(["list", "list", "tuple_list", "dict"])), "rename_cfg": draw(st.booleans()), "map_after_renames": prob(draw, 0.3),
        # runner.map with a run-time selection and an on_missing policy: each item is judged like a single run with the same options
        "rt_select": draw(st.lists(st.sampled_from(["key", "e", "o"]), min_size=1, max_size=2, unique=True)) if prob(draw, 0.3) else None,
        "on_missing": draw(st.sampled_from(["ignore", "error", "error"])),
        # the mapping node is derived from a mapping node that has already been EXECUTED with another map_over configuration
        "remap_after_use": prob(draw, 0.25),
        # the inner graph binds the broadcast input; the outer run supplies another value for it (the run-time value wins)
        "inner_binds_bc": prob(draw, 0.25),
        # an inner node MUTATES the list it receives as a signature default (nobody supplies it): every item starts from a pristine
        # default, as a single run does
        "default_mut": prob(draw, 0.25),
        # the first inner node EMITS an ordering signal; next to the mapping node an outer node waits for it
        "inner_emit": prob(draw, 0.3),
    }


def strategy(tier):
    return _case(tier)


def inner_spec(case):
    ps = case["ps"]
    nodes = [
        {"k": "func", "name": "k", "params": ps + ["bc"], "defaults": {}, "outs": ["key"], **({"emit": ["isig"]} if case.get("inner_emit") else {})},
        {"k": "ifelse", "name": "g", "params": ["key"], "defaults": {}, "t": "ev", "f": "od", "table": case["table"]},
        {"k": "func", "name": "ev", "params": ["key"], "defaults": {}, "outs": ["e"], "fail": {"mod": case["failmod"], "eq": 0}, "fail_per_args": True},
        {"k": "func", "name": "od", "params": ["key"], "defaults": {}, "outs": ["o"]},
    ]
    if case["mut"]:
        expr = {"list": "tuple(cfg)", "tuple_list": "tuple(cfg[0])", "dict": "tuple(cfg['k'])"}[case.get("cfg_shape", "list")]
        nodes.append({"k": "func", "name": "mut", "params": ["cfg", "key"], "defaults": {}, "outs": ["m"], "expr": expr})
    if case.get("default_mut"):
        nodes.append({"k": "func", "name": "dm", "params": ["key", "dflt_m"], "defaults": {"dflt_m": {"__mut__": "list"}}, "outs": ["dmo"], "mutates": ["dflt_m"]})
    spec = {"nodes": nodes, "name": "inner"}
    if case.get("inner_select"):
        spec["select"] = list(case["inner_select"]) + (["m"] if case["mut"] else []) + (["dmo"] if case.get("default_mut") else [])
    return spec


def _cfg0(case):
    shape = case.get("cfg_shape", "list")
    return {"list": [("c0",)], "tuple_list": ([("c0",)], "tag"), "dict": {"k": [("c0",)]}}[shape]


def _hooks(ctx, case=None):
    shape = (case or {}).get("cfg_shape", "list")
    ctx.hooks["mut"] = {"list": lambda a: a[0].append(a[1]), "tuple_list": lambda a: a[0][0].append(a[1]), "dict": lambda a: a[0]["k"].append(a[1])}[shape]


def _norm(res):
    e = res.error
    err = None if e is None else ((e.fid, e.at) if isinstance(e, Injected) else (type(e).__name__, str(e)[:80]))
    return (res.status.value, dict(res.values), err)


def _err_id(e):
    return (e.fid, e.at) if isinstance(e, Injected) else (type(e).__name__, str(e)[:80])


def check_case(case, ev):
    ps, order, mode, lists, bc = case["ps"], list(case["order"]), case["mode"], case["lists"], case["bc"]
    labels = {f"mode:{mode}", f"nparams:{len(ps)}", f"clone:{'list' if isinstance(case['clone'], list) else case['clone']}"}
    gspec = inner_spec(case)
    cfg0 = _cfg0(case)
    values = {p: list(lists[p]) for p in sorted(ps)}  # dict order is NOT the map_over order
    values["bc"] = bc
    if case["mut"]:
        values["cfg"] = cfg0
    unequal = mode == "zip" and len({len(lists[p]) for p in ps}) > 1
    clone = case["clone"]
    if clone == ["bc"] or clone == ["cfg"]:
        clone = [x for x in clone if x in values] or False

    # ---- reference: combinations and single runs
    if not unequal:
        combos = ref.expand_map({k: v for k, v in values.items()}, order, mode)
        singles = []
        for c in combos:
            cs = Ctx(compact=True)
            _hooks(cs, case)
            gs = make_graph(cs, gspec, "sync")
            item = dict(c)
            if case["mut"]:
                item["cfg"] = copy.deepcopy(cfg0)
            from hypergraph import SyncRunner

            r = SyncRunner().run(gs, item, error_handling="continue")
            singles.append(_norm(r))
        sel_kw = {"select": list(case["rt_select"]), "on_missing": case["on_missing"]} if case.get("rt_select") and not case.get("inner_select") else {}
        singles_sel = singles
        if sel_kw:
            singles_sel = []
            for c in combos:
                cs = Ctx(compact=True)
                _hooks(cs, case)
                gs = make_graph(cs, gspec, "sync")
                item = dict(c)
                if case["mut"]:
                    item["cfg"] = copy.deepcopy(cfg0)
                import warnings as _w

                with _w.catch_warnings():
                    _w.simplefilter("ignore")
                    singles_sel.append(_norm(SyncRunner().run(gs, item, error_handling="continue", **sel_kw)))
        n_failed = sum(1 for s in singles if s[0] == "failed")
        branches = {tuple(sorted(s[1])) for s in singles if s[0] == "completed"}
        first_fail = next((s[2] for s in singles if s[0] == "failed"), None)
    out_of_order = [False]
    singles_plain = singles if not unequal else []

    # the inner graph may bind the broadcast input itself; every call below supplies `bc`, and the run-time value wins
    gspec_used = {**gspec, "bind": {"bc": 7}} if case.get("inner_binds_bc") else gspec
    if case.get("inner_binds_bc"):
        labels.add("inner_graph_binds_a_broadcast_input")

    def fresh(flavour):
        c = Ctx(compact=True)
        _hooks(c, case)
        g = make_graph(c, gspec_used, flavour)
        v = dict(values)
        if case["mut"]:
            v["cfg"] = copy.deepcopy(cfg0)
        return c, g, v

    def expect_value_error(fn, tag):
        try:
            fn()
        except ValueError:
            return
        except Exception as e:  # noqa: BLE001
            raise Violation("c10.unequal_wrong_error", f"[{tag}] unequal zip lengths raised {type(e).__name__}: {e}") from None
        raise Violation("c10.unequal_accepted", f"[{tag}] unequal zip lengths {J(lists)} were accepted")

    def check_results(tag, res, eh, v, singles=None):
        singles = singles if singles is not None else singles_plain
        got = [_norm(r) for r in res]
        if len(got) != len(combos):
            raise Violation("c10.count", f"[{tag}] {len(got)} results for {len(combos)} combinations; lists={J(lists)} order={order}", what="count")
        for i, (a, b) in enumerate(zip(got, singles)):
            if a != b:
                raise Violation("c10.item_differs", f"[{tag}] result #{i} {a} differs from the single run on combination {J(combos[i])}: {b}; order={order} lists={J(lists)}",
                                what="order" if sorted(map(repr, got)) == sorted(map(repr, singles)) else "content")
        if case["mut"] and v["cfg"] != cfg0:
            raise Violation("c10.clone_leak", f"[{tag}] caller's broadcast list was modified although clone={case['clone']}: {J(v['cfg'])}")

    def map_call(tag, runner_kind, eh):
        from hypergraph import AsyncRunner, SyncRunner

        flavour = "async" if runner_kind == "sched" else "sync"
        c, g, v = fresh(flavour)
        kw = dict(map_over=order, map_mode=mode, clone=clone, error_handling=eh)
        use_sel = (not unequal) and bool(sel_kw)
        if use_sel:
            kw.update(sel_kw)
            tag += f" select={sel_kw['select']} on_missing={sel_kw['on_missing']}"
        my_singles = singles_sel if use_sel else (singles if not unequal else [])
        my_first_fail = next((s_[2] for s_ in my_singles if s_[0] == "failed"), None)
        import asyncio

        def call():
            if runner_kind == "sync":
                return SyncRunner().map(g, v, **kw)
            if runner_kind == "async":
                return _arun(AsyncRunner().map(g, v, max_concurrency=case["mc"], **kw))
            out, sched = run_scheduled(c, g, v, case["sched"], adversarial=case["adversarial"], method="map", max_concurrency=case["mc"], **kw)
            if out.status == "deadlock":
                raise Violation("c10.deadlock", f"[{tag}] {out.error}")
            if out.status == "raised":
                raise out.error
            # completion order of items as seen by their 'k' body exits
            done = [f for kind, f in c.events if kind == "exit" and f == "k"]
            keys = [a for f, a in c.log if f == "k"]
            exp = [tuple(cmb[p] for p in ps) + (bc,) for cmb in combos]
            if keys != exp and sorted(map(repr, keys)) == sorted(map(repr, exp)):
                out_of_order[0] = True
            return out.result

        if unequal:
            expect_value_error(call, tag)
            return
        try:
            res = call()
        except Injected as e:
            if eh != "raise":
                raise Violation("c10.raised_in_continue", f"[{tag}] continue mode raised {e}") from None
            if my_first_fail is None or _err_id(e) != my_first_fail:
                raise Violation("c10.wrong_error", f"[{tag}] raise mode surfaced {_err_id(e)}, the lowest-index failing item is {my_first_fail}", what="not_first") from None
            return
        except Violation:
            raise
        except Exception as e:  # noqa: BLE001
            if eh == "raise" and my_first_fail is not None and _err_id(e) == my_first_fail:
                return  # (a selected output the first failing item lacks, on_missing='error': that item's ValueError propagates)
            raise Violation("c10.map_raised", f"[{tag}] map raised {type(e).__name__}: {str(e)[:200]}", error=type(e).__name__) from None
        if eh == "raise" and any(s_[0] == "failed" for s_ in my_singles):
            raise Violation("c10.raise_not_raised", f"[{tag}] {sum(1 for s_ in my_singles if s_[0] == 'failed')} items fail but raise mode returned normally", selection=use_sel)
        check_results(tag, res, eh, v, my_singles)

    def node_call(tag, runner_kind, eh):
        flavour = "async" if runner_kind == "sched" else "sync"
        c = Ctx(compact=True)
        _hooks(c, case)
        m = {"params": order, "mode": mode, "error_handling": eh, "before_renames": True}
        if clone is not False:
            m["clone"] = clone
        outs = {"key": "key", "e": "e", "o": "o"}
        if case["mut"]:
            outs["m"] = "m"
        if case.get("default_mut"):
            outs["dmo"] = "dmo"
        if gspec.get("select"):
            outs = {k2: v2 for k2, v2 in outs.items() if k2 in gspec["select"]}

        inmap = {}
        renames = []
        if case["rename"] in ("swap_inputs", "both"):
            a, b = order[0], "bc"
            renames.append({"kind": "inputs", "map": {a: b, b: a}})  # swap a mapped and a broadcast input after map_over
            inmap = {a: b, b: a}
        if case["rename"] in ("swap_outputs", "both") and "e" in outs and "o" in outs:
            renames.append({"kind": "outputs", "map": {"e": "o", "o": "e"}})
            outs.update({"e": "o", "o": "e"})
        if case["mut"] and case.get("rename_cfg"):
            renames.append({"kind": "inputs", "map": {"cfg": "conf"}})  # the cloned broadcast input itself is renamed
            inmap["cfg"] = "conf"
        if case.get("map_after_renames") and renames:
            # map_over configured on the already renamed node: it is addressed by the current external names
            m = {**m, "params": [inmap.get(p_, p_) for p_ in order], "before_renames": False}
            if isinstance(m.get("clone"), list):
                m["clone"] = [inmap.get(p_, p_) for p_ in m["clone"]]
        if case.get("remap_after_use") and m.get("before_renames") and len(order) >= 1 and not unequal:
            wv = {k2: (val[:2] if k2 == order[0] and isinstance(val, list) else (val[0] if isinstance(val, list) and val else (0 if isinstance(val, list) else val))) for k2, val in values.items()}
            m = {**m, "warm": {"params": [order[0]], "values": wv}}
            labels.add("map_over_reconfigured_after_the_node_ran")
        wrapper = {"k": "graph", "name": "inner", "graph": gspec_used, "map": m, "renames": renames}
        ospec = {"nodes": [wrapper]}
        waiter = bool(case.get("inner_emit")) and not gspec.get("select")
        if waiter:
            # the mapping node publishes the signal of its graph like any other output; a node that waits for it runs afterwards
            ospec = {"nodes": [wrapper, {"k": "func", "name": "after", "params": [], "defaults": {}, "outs": ["aft"], "wait_for": ["isig"]}]}
        if case["deep"]:
            ospec = {"nodes": [{"k": "graph", "name": "mid", "graph": {"nodes": [wrapper], "name": "mid"}}]}
        g = make_graph(c, ospec, flavour)
        v = {inmap.get(k2, k2): (copy.deepcopy(val) if k2 == "cfg" else val) for k2, val in values.items()}

        def call():
            if runner_kind == "sync":
                return run_sync(g, v)
            if runner_kind == "async":
                return run_async(g, v, max_concurrency=case["mc"])
            out, sched = run_scheduled(c, g, v, case["sched"], adversarial=case["adversarial"], max_concurrency=case["mc"])
            if out.status == "deadlock":
                raise Violation("c10.deadlock", f"[{tag}] {out.error}")
            return out

        out = call()
        if unequal:
            if out.status != "raised" or not isinstance(out.error, ValueError):
                raise Violation("c10.unequal_accepted", f"[{tag}] unequal zip lengths gave {out.brief()}")
            return
        if out.status == "raised":
            e = out.error
            if isinstance(e, Injected):
                if eh != "raise":
                    raise Violation("c10.raised_in_continue", f"[{tag}] continue mode raised {e}")
                if first_fail is None or _err_id(e) != first_fail:
                    raise Violation("c10.wrong_error", f"[{tag}] raise mode surfaced {_err_id(e)}, the lowest-index failing item is {first_fail}", what="not_first")
                return
            raise Violation("c10.node_raised", f"[{tag}] run raised {type(e).__name__}: {str(e)[:200]}", error=type(e).__name__)
        if eh == "raise" and n_failed:
            raise Violation("c10.raise_not_raised", f"[{tag}] {n_failed} items fail but raise mode completed")
        for name, ext in outs.items():
            exp = [None if s[0] == "failed" else s[1].get(name) for s in singles]
            got = out.values.get(ext)
            if got != exp:
                shared_default = name == "dmo" and got is not None and len(got) == len(exp) and all(
                    (a_ is None) == (b_ is None) for a_, b_ in zip(got, exp))
                v_ = Violation("c10.node_lists", f"[{tag}] output {ext!r} (inner {name!r}) = {J(got)}, expected one entry per combination {J(exp)}; order={order} lists={J(lists)}"
                               + ("; the items of the mapping node share ONE copy of the mutated signature default" if shared_default else ""),
                               what="length" if got is None or len(got) != len(exp) else "content", shared_default_in_mapping_node=shared_default)
                from ..core import match_open

                kf = match_open(ID, v_.sig)
                if kf is None:
                    raise v_
                ev.known_excluded[kf["id"]] += 1
        if case["mut"] and v.get(inmap.get("cfg", "cfg")) != cfg0:
            raise Violation("c10.clone_leak", f"[{tag}] caller's broadcast list was modified although clone={case['clone']}: {J(v.get(inmap.get('cfg', 'cfg')))}")
        if waiter and not case["deep"] and "aft" not in out.values:
            raise Violation("c10.signal_of_mapped_graph_lost", f"[{tag}] the mapped graph's first node emits 'isig' and the mapping node completed, but the outer node waiting for 'isig' never ran "
                            f"(result keys {sorted(out.values)})", empty=not combos)
        if waiter:
            labels.add("outer_waiter_on_a_signal_of_the_mapped_graph")

    for runner_kind in ("sync", "async", "sched"):
        for eh in ("continue", "raise"):
            map_call(f"runner.map {runner_kind} {eh} mc={case['mc']}", runner_kind, eh)
            node_call(f"map_over node {runner_kind} {eh} rename={case['rename']} deep={case['deep']}", runner_kind, eh)
    if unequal:
        labels.add("unequal_zip")
        ev.case(case, False, sorted(labels))
        return
    nontrivial = len(branches) >= 2 or (n_failed >= 1 and len(combos) >= 3) or out_of_order[0]
    if len(branches) >= 2:
        labels.add("different_branches")
    if n_failed:
        labels.add("failing_item")
    if out_of_order[0]:
        labels.add("completed_out_of_order")
    if not combos:
        labels.add("empty")
    if case["rename"]:
        labels.add("renamed_wrapper")
    if case.get("inner_select"):
        labels.add("inner_graph_select_reordered")
    ev.case(case, nontrivial, sorted(labels))
