"""C15 - max_concurrency bounds all node executions globally and never deadlocks.  DESIGN.md section 4/C15."""
from __future__ import annotations

from hypothesis import strategies as st

from ..build import Ctx, J, make_graph
from ..core import Violation
from ..gen import prob
from ..observe import run_async
from ..sched import run_scheduled
from ..observe import arun as _arun

ID = "C15"
LEVEL = "exploration"
BUDGET = {"quick": 1920, "thorough": 20000}
SHARDS = {"quick": 16, "thorough": 16}
RULE = (
    "Hypothesis-generated shapes: a level has 1-5 independent function nodes (async def, plain def returning a coroutine, or plain "
    "sync), 0-2 nested graph nodes (recursively, depth <= 3) and optionally a mapping graph node (fan-out 1-4 over an inner level), "
    "run with max_concurrency = k in 1..K (K=4 quick, 8 thorough) through run() and through runner.map (1-4 items), under the "
    "harness scheduler in ADVERSARIAL mode (no body is released while any start is parked, so as many bodies are held open as the "
    "framework allows) with a drawn release order among bodies. Oracle: at every quiescent point and at every function entry the "
    "number of node functions entered and not finished (counted by the functions themselves across all levels and map items) is "
    "<= k; quiescence with nothing parked and the call unfinished is a deadlock; the final status/values equal the run with "
    "max_concurrency=None. Non-trivial = width > k and depth >= 1 (the limiter had to block somebody across a nesting or map "
    "boundary); evidence reports how often the observed peak reached min(k, width)."
)
ASSUMPTIONS = ["only function-node bodies take permits (gates and interrupt handlers are not generated here)", "work-conservation of the limiter is not demanded"]


@st.composite
def _level(draw, depth, counter, budget, in_map=False):
    n_leaf = draw(st.sampled_from([1, 1, 2, 3, 4, 5] if depth == 0 else [1, 1, 2, 3]))
    nodes = []
    for _ in range(n_leaf):
        i = counter[0]
        counter[0] += 1
        style = draw(st.sampled_from(["async", "async", "async", "coro_def", "sync", "agen"]))
        nodes.append({"k": "func", "name": f"f{i}", "params": ["x"], "defaults": {}, "outs": [f"r{i}"],
                      **({"coro_def": True} if style == "coro_def" else {}), **({"force_sync": True} if style == "sync" else {}),
                      **({"agen": True} if style == "agen" else {})})
    if depth < 3 and counter[0] < budget:
        for _ in range(draw(st.integers(0, 2))):
            if counter[0] >= budget:
                break
            i = counter[0]
            counter[0] += 1
            inner = draw(_level(depth + 1, counter, budget, in_map))
            nodes.append({"k": "graph", "name": f"g{i}", "graph": {"nodes": inner, "name": f"g{i}"}})
        if not in_map and prob(draw, 0.4) and counter[0] < budget:
            i = counter[0]
            counter[0] += 1
            inner = draw(_level(depth + 1, counter, budget, True))
            # mapped inner graph: its leaves read the mapped item
            inner = [_retarget(n, "x", "item") for n in inner]
            nodes.append({"k": "graph", "name": f"m{i}", "graph": {"nodes": inner, "name": f"m{i}"},
                          "map": {"params": ["item"], "mode": "zip", "error_handling": "raise", "before_renames": True}, "fan": draw(st.integers(1, 6))})
    return nodes


def _retarget(n, old, new):
    if n["k"] == "graph":
        if n.get("map"):
            return n  # its own items come from its own input name
        return {**n, "graph": {**n["graph"], "nodes": [_retarget(x, old, new) for x in n["graph"]["nodes"]]}}
    return {**n, "params": [new if p == old else p for p in n["params"]]}


@st.composite
def _case(draw, tier):
    counter = [0]
    nodes = draw(_level(0, counter, 14))
    K = 4 if tier == "quick" else 8
    k = draw(st.integers(1, K))
    has_map = any(n["k"] == "graph" and n.get("map") for n in nodes)
    if prob(draw, 0.5 if has_map else 0.2):
        # a limit just above the number of function nodes written in the program (map fan-out may still exceed it)
        k = min(_leaves(nodes) + draw(st.integers(0, 1)), 8)
        if has_map:
            for n in nodes:
                if n["k"] == "graph" and n.get("map"):
                    n["fan"] = min(6, max(n.get("fan", 1), k + 1))
    pre = draw(st.sampled_from([None, None, None, "empty_map", "zip_error", "failing_map", "failing_map", "earlier_loop", "earlier_loop", "paused_run", "paused_run"]))
    return {"nodes": nodes, "k": k, "via_map": prob(draw, 0.3), "nitems": draw(st.integers(1, 6)),
            "sched": draw(st.lists(st.integers(0, 9), max_size=80)), "adversarial": prob(draw, 0.8),
            "pre": pre, "pre_k": draw(st.integers(1, 8)),
            # a leaf that raises (errors collected): the limit must not change which siblings run or what is returned
            "fail_leaf": draw(st.integers(0, 4)) if prob(draw, 0.25) else None,
            # the step budget the unlimited run just manages with must be enough for the limited run as well
            "tight_iterations": prob(draw, 0.3),
            # leaves are cacheable, the runner carries a cache and the mapped items REPEAT (concurrent duplicates: some miss first and
            # hit after waiting for a slot): the limit holds and nothing hangs
            "cached_dupes": prob(draw, 0.25)}


def _leaves(nodes):
    return sum(_leaves(n["graph"]["nodes"]) if n["k"] == "graph" else 1 for n in nodes)


def strategy(tier):
    return _case(tier)


def _width_depth(nodes, depth=0):
    """(max simultaneously runnable leaves, max nesting/mapping depth at which leaves exist)."""
    w, d = 0, depth
    for n in nodes:
        if n["k"] == "graph":
            iw, idp = _width_depth(n["graph"]["nodes"], depth + 1)
            w += iw * (n.get("fan", 1) if n.get("map") else 1)
            d = max(d, idp)
        else:
            w += 1
    return w, d


def _map_inputs(nodes, vals):
    """Every mapping node needs a list for its `item` input (one shared name: broadcast through the levels)."""
    fan = 0
    for n in nodes:
        if n["k"] == "graph":
            if n.get("map"):
                fan = max(fan, n["fan"])
            fan = max(fan, _map_inputs(n["graph"]["nodes"], vals))
    return fan


def _normalise_fans(nodes, fan):
    out = []
    for n in nodes:
        if n["k"] == "graph":
            g = {**n["graph"], "nodes": _normalise_fans(n["graph"]["nodes"], fan)}
            out.append({**n, "graph": g, **({"fan": fan} if n.get("map") else {})})
        else:
            out.append(n)
    return out


def check_case(case, ev):
    k = case["k"]
    fan = _map_inputs(case["nodes"], {})
    nodes = _normalise_fans(case["nodes"], fan) if fan else case["nodes"]  # all mapping nodes share the one `item` list
    width, depth = _width_depth(nodes)
    vals = {"x": ("x0",)}
    if fan:
        vals["item"] = [("it", i) for i in range(fan)]
    labels = {f"k:{k}", f"depth:{depth}"}
    method = "run"
    mvals = dict(vals)
    kw = {}
    cached = bool(case.get("cached_dupes")) and not case.get("pre") and case.get("fail_leaf") is None
    if cached:
        def _cache_all(ns):
            return [({**n, "graph": {**n["graph"], "nodes": _cache_all(n["graph"]["nodes"])}} if n["k"] == "graph" else ({**n, "cache": True} if n["k"] == "func" else n)) for n in ns]
        nodes = _cache_all(nodes)
        if fan:
            vals["item"] = [("it", i % 2) for i in range(fan)]
        mvals = dict(vals)
        labels.add("cacheable_leaves_with_repeated_items")
    if case["via_map"]:
        method = "map"
        mvals["x"] = [("x", i % 2 if cached else i) for i in range(case["nitems"])]
        kw = {"map_over": "x"}
        width *= case["nitems"]
        depth += 1
        labels.add("via_runner.map")

    # unlimited reference run (plain event loop, no scheduler)
    import asyncio

    from hypergraph import AsyncRunner

    run_kw = {}
    top_leaves = [i for i, n in enumerate(nodes) if n["k"] == "func"]
    if case.get("fail_leaf") is not None and top_leaves:
        i = top_leaves[case["fail_leaf"] % len(top_leaves)]
        nodes = [dict(n) for n in nodes]
        nodes[i]["fail"] = "always"
        run_kw["error_handling"] = "continue"
        labels.add("failing_leaf_continue")
    elif case.get("pre") == "failing_map" and top_leaves:
        nodes = [dict(n) for n in nodes]
        nodes[top_leaves[0]]["fail"] = {"arg_in": [["px", 0]]}  # fails for the first item of the EARLIER map only

    ctx0 = Ctx(compact=True)
    try:
        g0 = make_graph(ctx0, {"nodes": nodes}, "async")
    except Exception as e:  # noqa: BLE001
        ev.discard("construct:" + type(e).__name__ + ":" + str(e).split("\n")[0][:50])
        return
    if method == "map":
        try:
            res0 = _arun(AsyncRunner().map(g0, dict(mvals), **kw, **run_kw))
        except Exception as e:  # noqa: BLE001
            raise Violation("c15.raised", f"[unlimited map] raised {type(e).__name__}: {str(e)[:200]}", deadlock=type(e).__name__ == "Deadlock") from None
        want = [(r.status.value, r.values) for r in res0]
    else:
        o0 = run_async(g0, mvals, **run_kw)
        want = (o0.status, o0.values)
        if case.get("tight_iterations") and not run_kw and o0.status == "completed":
            for m in range(1, 13):
                ctx0.reset()
                om = run_async(g0, mvals, max_iterations=m, error_handling="continue")
                if om.status == "completed":
                    run_kw["max_iterations"] = m
                    labels.add("tight_max_iterations")
                    break
            ctx0.reset()
            run_async(g0, mvals, **run_kw)
    want_calls = sorted(map(repr, ctx0.log))

    over = []

    def on_q(s):
        if ctx.inflight > phase["limit"]:
            over.append(ctx.inflight)

    ctx = Ctx(compact=True)
    g = make_graph(ctx, {"nodes": nodes}, "async")
    the_runner = None
    if cached:
        from hypergraph.cache import InMemoryCache

        the_runner = AsyncRunner(cache=InMemoryCache())
    if case.get("pre") == "earlier_loop":
        # the same runner object has already served a bounded map with the same limit in an EARLIER event loop (contended:
        # more items than slots); nothing bound to that loop may be reused
        labels.add("pre:earlier_loop")
        the_runner = AsyncRunner()
        try:
            _arun(the_runner.map(g, {**vals, "x": [("e", j) for j in range(k + 2)]}, map_over="x", max_concurrency=k, error_handling="continue"))
        except Exception as e:  # noqa: BLE001
            if type(e).__name__ == "Deadlock":
                raise Violation("c15.deadlock", f"[earlier loop] bounded map(max_concurrency={k}) over {k + 2} items never returned: {e}", k=k) from None
            raise Violation("c15.raised", f"[earlier loop] bounded map raised {type(e).__name__}: {str(e)[:200]}") from None
        ctx.reset()
    pre = None
    pre_inside = None
    phase = {"limit": k}
    if case.get("pre") == "failing_map":
        # an earlier bounded map in raise mode whose first item fails while others are in flight: when it has raised, nothing
        # of it may still be executing (or it would add to the next call's k)
        labels.add("pre:failing_map")
        pk = max(2, case["pre_k"])
        phase["limit"] = pk
        pre_state = {}

        async def pre_inside(runner, hold):
            try:
                pre_state["result"] = await runner.map(g, {**vals, "x": [("px", j) for j in range(3)]}, map_over="x", max_concurrency=pk, error_handling="raise", event_processors=[hold])
            except Exception as e:  # noqa: BLE001 - expected: the injected failure of item 0
                pre_state["error"] = e
            phase["limit"] = k
            phase["leftover"] = ctx.inflight
            ctx.peak = ctx.inflight
            ctx.log.clear()

    elif case.get("pre") == "paused_run":
        # an earlier run with a LARGER limit, awaited from the same task, that ends PAUSED at an interrupt: its budget is gone with it
        labels.add("pre:paused_run")
        pre_state = {}

        async def pre(runner):
            from hypergraph import Graph, InterruptNode

            gp = Graph([InterruptNode(lambda q: None, name="ask_pre", output_name="ans_pre")])
            try:
                r = await runner.run(gp, {"q": 1}, max_concurrency=k + 4)
                pre_state["status"] = r.status.value
            except Exception as e:  # noqa: BLE001
                pre_state["error"] = e

    elif case.get("pre") in ("empty_map", "zip_error"):
        # an earlier bounded call awaited from the same task that ends without executing anything: an empty batch
        # (returns []) or a zip-length mismatch (raises).  Whatever limit it installed must be gone afterwards.
        labels.add("pre:" + case["pre"])
        pre_vals = {**vals, "x": []} if case["pre"] == "empty_map" else {**vals, "x": [("p", 0)], "pre_extra": [1, 2]}
        pre_over = "x" if case["pre"] == "empty_map" else ["x", "pre_extra"]
        pre_state = {}

        async def pre(runner):
            try:
                pre_state["result"] = await runner.map(g, pre_vals, map_over=pre_over, max_concurrency=case["pre_k"])
            except Exception as e:  # noqa: BLE001 - a rejected batch is the point of the zip_error variant
                pre_state["error"] = e

    out, sched = run_scheduled(ctx, g, mvals, case["sched"], adversarial=case["adversarial"], method=method, on_quiescent=on_q, max_concurrency=k, pre=pre, pre_inside=pre_inside,
                               runner=the_runner, **kw, **run_kw)
    if case.get("pre") == "empty_map" and pre_state.get("result") != []:
        raise Violation("c15.empty_map", f"map over an empty list gave {pre_state}")
    tag = f"k={k} width={width} depth={depth} {method}"
    if phase.get("leftover"):
        raise Violation("c15.bound_exceeded", f"[{tag}] the earlier map(max_concurrency={phase.get('limit')}, raise mode) had returned (raised) while {phase['leftover']} of its node functions were still executing", via="leftover")

    if out.status == "deadlock":
        raise Violation("c15.deadlock", f"[{tag}] {out.error}; parked history tail: {[t[1] for t in sched.trace[-4:]]}", k=k)
    if over or ctx.peak > k:
        raise Violation("c15.bound_exceeded", f"[{tag}] {max(over + [ctx.peak])} node functions were executing at once (limit {k})", via=method)
    if out.status == "raised":
        raise Violation("c15.raised", f"[{tag}] limited run raised {type(out.error).__name__}: {str(out.error)[:200]}")
    got = [(r.status.value, r.values) for r in out.result] if method == "map" else (out.status, out.values)
    if got == want and not case.get("pre") and not cached and sorted(map(repr, ctx.log)) != want_calls:
        raise Violation("c15.invocations_differ", f"[{tag}] node invocations of the limited run {sorted(map(repr, ctx.log))[:12]} differ from the unlimited run {want_calls[:12]}", via=method)
    if got != want:
        raise Violation("c15.result_differs", f"[{tag}] limited run {J(got)[:1] if False else str(got)[:600]} differs from the unlimited run {str(want)[:600]}", via=method)
    ev.count("runs")
    if ctx.peak == min(k, width):
        ev.count("peak_reached_min(k,width)")
    if case["adversarial"]:
        labels.add("adversarial")
    ev.case(case, width > k and depth >= 1, sorted(labels))
