"""C13 - observers cannot alter execution.  DESIGN.md section 4/C13.  (fault enumeration)"""
from __future__ import annotations

from hypothesis import strategies as st

from .. import gen
from ..build import Injected
from ..gen import prob
from ..core import Violation
from ..rich import execute
from ..trace import normalise, tree_form

ID = "C13"
LEVEL = "fault_enumeration"
BUDGET = {"quick": 480, "thorough": 6000}
SHARDS = {"quick": 16, "thorough": 16}
RULE = (
    "Programs as in C12 (nested, sibling nested graphs, gates, loops, map, cache hits, failing nodes; sync/async/scheduled). A "
    "baseline call with one healthy recorder yields N events; then for EVERY event index k < N (all k when N <= 24 quick / 40 thorough, else that many drawn "
    "indices), for 'every event' and for 'at shutdown', the call is repeated with [failing(k), recorder] and [recorder, failing(k)], "
    "where the failing processor is an instance of the SAME class as the recorder, sync-style and async-style processors. Oracle: "
    "status, values, error identity class and the multiset of node invocations equal the processor-free run; the healthy "
    "recorder's stream equals the baseline stream (exactly for sync and for the scheduled async runner, as a tree for the plain "
    "async runner) and its shutdown ran exactly once. Non-trivial = k hit an emission-site class not seen before in this run "
    "(event type x {top, nested} x {sync, async path}); evidence lists the covered site classes."
)
ASSUMPTIONS = ["processors raise Exception subclasses (the dispatcher's contract); strict mode is not used"]


@st.composite
def _case(draw, tier):
    c = draw(gen.rich_case(tier))
    c["runs"] = 1
    c["omit_required"] = False
    c["bad_on_missing"] = False
    c["async_style"] = draw(st.booleans())
    c["suspend"] = draw(st.sampled_from([0, 0, 1, 2, 3]))  # an async observer really awaits before it raises
    if c["suspend"] and c["runner"] != "sync":
        c["async_style"] = True
        if c["kind"] in ("g1", "g1nest", "g1multi") and draw(st.booleans()):
            c["method"] = "map"
    if c["suspend"]:
        def strip(ns):
            for n in ns:
                n.pop("cache", None)
                if n["k"] == "graph":
                    strip(n["graph"]["nodes"])
        strip(c.get("nodes") or [])  # see check_case: suspension is only used on cache-free programs
        if c["kind"] == "g1":
            # two nodes that fail in the SAME superstep (both are sources): which error the run reports must not depend on
            # how long an observer takes over their events
            produced = {o for n in c["nodes"] for o in n.get("outs", [])}
            srcs = [n for n in c["nodes"] if n["k"] == "func" and not any(q in produced for q in n["params"])]
            if len(srcs) >= 2:
                for n in draw(st.permutations(srcs))[:2]:
                    n["fail"] = "always"
                c["error_handling"] = draw(st.sampled_from(["raise", "continue"]))
        if c["method"] == "map" and c.get("mc") is None and draw(st.booleans()):
            c["mc"] = 2  # the bounded map path has its own ordering bookkeeping
        c["nitems"] = max(c["nitems"], 2)
    if c["kind"] == "g2" and c["runner"] == "sync" and prob(draw, 0.5):
        # function nodes draw from the global `random` module, which the caller seeded (sync runner: one deterministic order)
        c["rand_nodes"] = True
        for n in c["nodes"]:
            if n["k"] == "func":
                n["rand"] = True
                n.pop("cache", None)
    c["self_unregister"] = prob(draw, 0.25)  # the failing observer removes itself from the caller's list when it fails
    c["unhashable"] = prob(draw, 0.2)  # observers written as @dataclass / with __eq__ are not hashable
    c["sized"] = prob(draw, 0.2)  # collectors that expose len() = number of events seen (empty, hence falsy, when the run starts)
    c["bad_repr"] = prob(draw, 0.2)  # a broken observer whose repr()/str() fails too once it has failed
    c["exc"] = draw(st.sampled_from(["message", "message", "empty", "bare_class", "multiline", "non_str_args", "keyerror_empty",
                                     "timeout", "timeout", "connection", "assertion", "stop_iteration"]))
    # the observed call is the SECOND one on the same runner (warm cache: cached nodes are served as cache hits, which have their
    # own emission sites)
    c["warm"] = prob(draw, 0.5)
    # the host process promotes warnings to errors: whatever the library warns about is raised - with and without observers alike
    c["warnings_as_errors"] = prob(draw, 0.25)
    c["idx_draw"] = draw(st.lists(st.integers(0, 10_000), min_size=40, max_size=40))
    return c


def strategy(tier):
    return _case(tier)


class _Boom(Exception):
    pass


def _exc(kind, where):
    """The exception a failing observer raises: with a message, without one, with odd arguments."""
    if kind == "empty":
        return RuntimeError()
    if kind == "bare_class":
        return _Boom()
    if kind == "multiline":
        return RuntimeError(f"\nobserver failure {where}\n  second line\n")
    if kind == "non_str_args":
        return ValueError(3, None, (where,))
    if kind == "keyerror_empty":
        return KeyError("")
    if kind == "timeout":
        return TimeoutError(f"sink timed out {where}")  # what a slow exporter raises (asyncio.TimeoutError is this class)
    if kind == "connection":
        return ConnectionResetError(f"sink went away {where}")
    if kind == "assertion":
        return AssertionError(f"observer self-check {where}")
    if kind == "stop_iteration":
        return StopIteration(where)
    return RuntimeError(f"observer failure {where}")


def _leave(p):
    """A circuit-breaker style observer: when it fails it also takes itself out of the caller's registry (the list object that
    was passed as event_processors).  The call in flight works on its own view of that list."""
    reg = getattr(p, "registry", None)
    if reg is not None and getattr(p, "leaves_registry", False):
        for j, q in enumerate(reg):
            if q is p:
                del reg[j]
                break


def _make_probe_classes(exc_kind="message", suspend=0, unhashable=False, sized=False, bad_repr=False):
    import asyncio

    from hypergraph.events import AsyncEventProcessor, EventProcessor

    class Probe(EventProcessor):
        """Recorder and failing processor are the same class: fail_at None = healthy."""

        def __init__(self, fail_at=None):
            self.fail_at = fail_at
            self.events = []
            self.shutdowns = 0
            self.i = 0

        def on_event(self, event):
            i = self.i
            self.i += 1
            self.events.append(event)
            if self.fail_at == "all" or self.fail_at == i:
                _leave(self)
                raise _exc(exc_kind, f"at event {i}")

        def shutdown(self):
            self.shutdowns += 1
            if self.fail_at in ("shutdown", "all"):
                _leave(self)
                raise _exc(exc_kind, "at shutdown")

    class AsyncProbe(AsyncEventProcessor):
        def __init__(self, fail_at=None):
            self.fail_at = fail_at
            self.events = []
            self.shutdowns = 0
            self.i = 0

        def on_event(self, event):
            return Probe.on_event(self, event)

        async def on_event_async(self, event):
            i = self.i
            self.i += 1
            self.events.append(event)
            if self.fail_at == "all" or self.fail_at == i:
                for _ in range(suspend):
                    await asyncio.sleep(0)
                _leave(self)
                raise _exc(exc_kind, f"at event {i}")

        def shutdown(self):
            return Probe.shutdown(self)

        async def shutdown_async(self):
            return Probe.shutdown(self)

    if unhashable:
        for cls in (Probe, AsyncProbe):
            cls.__eq__ = lambda self, other: self is other
            cls.__hash__ = None
    if sized:
        for cls in (Probe, AsyncProbe):
            cls.__len__ = lambda self: len(self.events)
    if bad_repr:
        def _repr(self):
            if self.fail_at is not None and self.i > 0:
                raise _exc(exc_kind, "in repr")
            return object.__repr__(self)
        for cls in (Probe, AsyncProbe):
            cls.__repr__ = _repr
            cls.__str__ = _repr
    return Probe, AsyncProbe


CALLS_AS_SET = [False]  # per case: a suspending observer shifts the interleaving of concurrent items; with cached nodes the NUMBER
# of invocations then depends on who reaches the cache first (a schedule effect, not an effect of the failure)


def _calls(call):
    c = sorted(map(repr, call.ctx_log))
    return sorted(set(c)) if CALLS_AS_SET[0] else c


def _form(call):
    o = call.outcome
    if o.status == "map":
        res = o.result
        return ("map", [(r.status.value, repr(sorted((k, repr(v)) for k, v in r.values.items())), _err(r.error)) for r in res], _calls(call))
    return (o.status, repr(sorted((k, repr(v)) for k, v in (o.values or {}).items())), _err(o.error), _calls(call))


def _err(e):
    if e is None:
        return None
    if isinstance(e, Injected):
        return ("Injected", e.fid)
    return (type(e).__name__, str(e)[:100])


def check_case(case, ev):
    Probe, AsyncProbe = _make_probe_classes(case.get("exc", "message"), case.get("suspend", 0), case.get("unhashable", False), case.get("sized", False), case.get("bad_repr", False))
    use_async_style = case["async_style"] and case["runner"] != "sync"
    P = AsyncProbe if use_async_style else Probe
    labels = {f"kind:{case['kind']}", f"method:{case['method']}", f"runner:{case['runner']}", "style:" + ("async" if use_async_style else "sync"), "exc:" + case.get("exc", "message")}

    def _any_cached(ns):
        return any(n.get("cache") or (n["k"] == "graph" and _any_cached(n["graph"]["nodes"])) for n in ns)

    # A suspending observer shifts the interleaving of concurrent map items / sibling nodes; with cached nodes, who reaches
    # the cache first (hit or miss, hence invocation counts and CacheHit events) then legitimately depends on it.  Suspension
    # is therefore only used on programs without cached nodes.
    suspend = case.get("suspend", 0)
    if suspend and _any_cached(case.get("nodes") or []):
        suspend = 0
    if suspend and use_async_style:
        labels.add("suspending_async_observer")
    Probe, AsyncProbe = _make_probe_classes(case.get("exc", "message"), suspend, case.get("unhashable", False), case.get("sized", False), case.get("bad_repr", False))
    if case.get("sized"):
        labels.add("observer_with_len")
    if case.get("bad_repr"):
        labels.add("failing_observer_whose_repr_fails")
    P = AsyncProbe if use_async_style else Probe

    warm = bool(case.get("warm")) and _any_cached(case.get("nodes") or []) and not suspend
    if warm:
        labels.add("warm_cache_second_call_observed")

    def run_with(procs_fn):
        if not warm:
            return execute(case, procs_fn, n_calls=1)
        # the first call (no observers) fills the runner's cache; the second, observed one is judged
        calls_, wg, cx = execute(case, lambda i, rk: [] if i == 0 else procs_fn(i, rk), n_calls=2)
        return calls_[1:], wg, cx

    try:
        bare_calls, _, _ = run_with(lambda i, rk: [])
    except Violation:
        raise
    except Exception as e:  # noqa: BLE001
        ev.discard("construct:" + type(e).__name__)
        return
    bare = bare_calls[0]
    if bare.outcome.status == "deadlock":
        raise Violation("c13.deadlock", f"baseline: {bare.outcome.error}")
    if bare.rejected or bare.paused:
        ev.discard("rejected_or_paused")
        return
    if case.get("warnings_as_errors") and bare.outcome.status == "raised" and isinstance(bare.outcome.error, Warning):
        ev.discard("library_warning_raised_under_the_host_policy")  # (the call itself warns - e.g. about an overridden internal value; nothing to do with observers)
        return
    if case.get("warnings_as_errors"):
        labels.add("host_promotes_warnings_to_errors")
    want = _form(bare)
    base_rec = []
    base_calls, _, _ = run_with(lambda i, rk: [base_rec.append(P()) or base_rec[-1]])
    if _form(base_calls[0]) != want:
        raise Violation("c13.recorder_changed_run", f"a healthy recorder changed the outcome: {_form(base_calls[0])[:3]} vs {want[:3]}")
    stream = base_rec[0].events
    N = len(stream)
    # an async observer that suspends before raising lets sibling tasks overtake: the healthy stream is then the same TREE,
    # not the same interleaving
    exact = case["runner"] == "sync" or (case["runner"] == "sched" and not (use_async_style and suspend))
    base_norm = normalise(stream) if exact else tree_form(stream)
    cap = 24 if ev.tier == "quick" else 40
    idxs = list(range(N)) if N <= cap else sorted({d % N for d in case["idx_draw"][:cap]})
    sites_seen = set()
    new_sites = 0
    points = [("k", k) for k in idxs] + [("all", "all"), ("shutdown", "shutdown")]
    for kind, k in points:
        for order in ("failing_first", "recorder_first"):
            holder = {}

            def factory(i, rk, k=k, order=order, holder=holder):
                f, r = P(fail_at=k), P()
                holder["rec"], holder["fail"] = r, f
                reg = [f, r] if order == "failing_first" else [r, f]
                f.registry, f.leaves_registry = reg, bool(case.get("self_unregister"))
                return reg

            calls, _, _ = run_with(factory)
            call = calls[0]
            tag = f"{case['runner']} {call.kind} failing at {k} ({order}, {'async' if use_async_style else 'sync'}-style processors)"
            if call.outcome.status == "deadlock":
                raise Violation("c13.deadlock", f"[{tag}] {call.outcome.error}")
            got = _form(call)
            cut_short = bool(use_async_style and suspend and case["runner"] != "sync" and want[0] == "raised")
            if cut_short and got[:3] == want[:3]:
                # a run that is cut short by a node's exception: how far the concurrent siblings / items got by then depends on
                # the interleaving, which an observer that really suspends shifts (a schedule effect, not an effect of its failure)
                got = want
                labels.add("cut_short_run_under_suspending_observer(outcome_only)")
            if got != want:
                what = "status" if got[0] != want[0] else ("error" if got[2] != want[2] else ("values" if got[1] != want[1] else "invocations"))
                raise Violation("c13.run_altered", f"[{tag}] outcome {str(got[:3])[:600]} differs from the processor-free run {str(want[:3])[:600]}", what=what, at="shutdown" if k == "shutdown" else ("all" if k == "all" else "event"))
            rec = holder["rec"]
            got_stream = normalise(rec.events) if exact else tree_form(rec.events)
            if got_stream != base_norm and not cut_short:
                missing = len(base_norm) - len(got_stream)
                raise Violation("c13.healthy_stream_differs", f"[{tag}] the healthy recorder received {len(got_stream)} events, baseline {len(base_norm)}; first difference: "
                                + str(next(((a, b) for a, b in zip(got_stream, base_norm) if a != b), "length only"))[:500],
                                what="fewer" if missing > 0 else ("more" if missing < 0 else "different"), order=order)
            if rec.shutdowns != 1:
                raise Violation("c13.healthy_shutdown", f"[{tag}] the healthy recorder's shutdown ran {rec.shutdowns} times", order=order)
            ev.count("fault_points")
        if kind == "k":
            e = stream[k]
            site = (type(e).__name__, "nested" if getattr(e, "parent_span_id", None) is not None and type(e).__name__.startswith("Run") else "top", "async" if case["runner"] != "sync" else "sync")
            if site not in sites_seen:
                sites_seen.add(site)
                new_sites += 1
    ev.extra.setdefault("site_classes", [])
    ev.extra["site_classes"] = sorted(set(map(tuple, ev.extra["site_classes"])) | sites_seen)
    ev.case(case, new_sites > 0, sorted(labels))
