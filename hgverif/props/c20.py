"""C20 - visualisation shows exactly the graph's structure in every expansion state.  DESIGN.md section 4/C20."""
from __future__ import annotations

import re

from hypothesis import strategies as st

from .. import gen, ref
from ..build import Ctx, J, make_graph
from ..core import Violation as _Violation
from ..gen import prob

ID = "C20"
LEVEL = "exploration"
BUDGET = {"quick": 4000, "thorough": 24000}
SHARDS = {"quick": 16, "thorough": 16}
RULE = (
    "Hypothesis-generated acyclic programs (3-7 nodes, shared inputs, multi-output nodes) with an interval nested to depth 0-3 "
    "(optionally through thin wrapper levels and with renamed wrapper boundaries), optional emit/wait_for pairs, optional "
    "top-level gates (if/else, route, END, targets that are nested graph nodes), optional exclusive branches producing one name. "
    "For EVERY expansion state and both output modes in render_graph(...)['meta'] and for to_mermaid(depth=0..3, separate_outputs "
    "both ways, parsed back): self-consistency (node/edge state keys coincide, every edge endpoint is a declared node of that "
    "state, every graph node declared exactly once) and faithfulness against the dependency relation computed from the IR "
    "(leaf-level data dependencies per value through nesting and renames, control and ordering dependencies): completeness - "
    "every dependency whose endpoints have different visible representatives is drawn between a representative of the producer "
    "(the node or a visible enclosing container; its DATA node in separate-outputs mode) and a representative of the consumer; "
    "soundness - every drawn non-input edge corresponds to a dependency of the same kind, input edges end at a representative of "
    "a consumer of that input. to_flat_graph(): ids and parent links equal the IR tree, every nested node exactly once, inner "
    "edges present at every depth. Non-trivial = >=1 container with a dependency crossing its boundary, evaluated in >=2 states."
)
ASSUMPTIONS = [
    "an edge whose endpoint is declared but hidden (INPUT nodes owned by a collapsed container) counts as not drawn; it is not an inconsistency",
    "layout, labels, colours, INPUT grouping and the choice among several acceptable representatives are not constrained",
]


@st.composite
def _case(draw, tier):
    if prob(draw, 0.05) and draw(st.integers(0, 2)) == 0:
        # NINE sibling containers (one node each): every combination of expanded / collapsed containers is a state of its own
        topo = draw(gen.g1_nodes(9, 9, default_on_edge=0.0, allow_no_out=False))
        for n in topo:
            n["defaults"] = {}
        nodes = [{"k": "graph", "name": f"s{i}", "graph": {"name": f"s{i}", "nodes": [dict(n)]}, "flat_inputs": list(n["params"]), "flat_outputs": list(n["outs"]), "renames": []} for i, n in enumerate(topo)]
        return {"topo": topo, "nodes": draw(gen.permuted(nodes)), "depth": 1, "thin": False, "renamed": False, "mutex": None, "siblings": True, "trap": False, "many": True}
    # node names that START WITH a container's name (containers are sub0, sub1, ...) are legal and a trap for string matching
    topo = draw(gen.g1_nodes(3, 7, default_on_edge=0.0, prefix=draw(st.sampled_from(["n", "n", "n", "sub0_", "sub1"]))))
    for n in topo:
        n["defaults"] = {}
    trap = False
    if prob(draw, 0.15):
        # names whose concatenations coincide: node `ld` with output `raw_txt`, node `ld_raw` with output `txt`, one consumer of both
        # ("ld" + "_" + "raw_txt" == "ld_raw" + "_" + "txt"): two different dependencies into the same node
        withouts = [i for i, x in enumerate(topo) if x["outs"]]
        if len(withouts) >= 2 and max(withouts) < len(topo) - 1 or len(withouts) >= 3:
            ia, ib = sorted(draw(st.permutations(withouts[:-1] if max(withouts) == len(topo) - 1 else withouts))[:2])
            later = [i for i in range(len(topo)) if i > ib]
            if later:
                ic = draw(st.sampled_from(later))
                ren_out = {topo[ia]["outs"][0]: "raw_txt", topo[ib]["outs"][0]: "txt"}
                ren_node = {topo[ia]["name"]: "ld", topo[ib]["name"]: "ld_raw"}
                for x in topo:
                    x["name"] = ren_node.get(x["name"], x["name"])
                    x["outs"] = [ren_out.get(o, o) for o in x["outs"]]
                    x["params"] = list(dict.fromkeys(ren_out.get(q, q) for q in x["params"]))
                for q in ("raw_txt", "txt"):
                    if q not in topo[ic]["params"]:
                        topo[ic]["params"].append(q)
                trap = True
    if prob(draw, 0.2):
        # nodes marked hide=True are left out of diagrams (documented option), and so is every edge that touches them
        for x in topo:
            if prob(draw, 0.3):
                x["hide"] = True
    if prob(draw, 0.3) and len(topo) >= 2:
        i = draw(st.integers(0, len(topo) - 2))
        j = draw(st.integers(i + 1, len(topo) - 1))
        topo[i]["emit"] = ["sig_v"]
        topo[j]["wait_for"] = ["sig_v"]
    depth = draw(st.sampled_from([0, 1, 1, 2, 2, 3]))
    renamed = False
    same_name = False
    ren_all: set = set()  # outputs that a sibling wrapper exposes under another name (gates below do not take those)
    siblings = prob(draw, 0.2)
    if siblings:
        # 2-3 SIBLING containers; some take their inputs under fresh inner names (the wrapper's inputs are renamed back), so
        # the only node that lists the outer name as an input is the container itself
        outer, _wg = draw(gen.multi_nest(topo))
        for w in outer:
            if w["k"] == "graph" and w["flat_inputs"] and draw(st.booleans()):
                ins = draw(gen.subset(w["flat_inputs"], 0.6))
                if ins:
                    m = {v: v + "_i" for v in ins}
                    w["graph"]["nodes"] = [{**x, "params": [m.get(q, q) for q in x["params"]]} for x in w["graph"]["nodes"]]
                    # the wrapper may already have been looked at / used in a graph before it is renamed
                    w["renames"] = ([{"kind": "warm"}] if draw(st.booleans()) else []) + [{"kind": "inputs", "map": {vi: v for v, vi in m.items()}}]
        # ... and some expose an OUTPUT under a fresh outer name (with_outputs), also one that is consumed inside as well; only plain
        # outer nodes take it (under the new name)
        for w in outer:
            if w["k"] != "graph" or not draw(st.booleans()):
                continue
            others_in = {q for w2 in outer if w2["k"] == "graph" and w2 is not w for q in w2["flat_inputs"]}
            waited = {q for x in topo for q in x.get("wait_for", [])}
            cand = [o for o in w["flat_outputs"] if o not in others_in and o not in waited and any(o in x["params"] for x in outer if x["k"] != "graph")]
            ren = {o: "zq" + o[1:] for o in cand if draw(st.booleans())}  # (neither name contains the other)
            if ren:
                ren_all |= set(ren)
                w["renames"] = list(w.get("renames", [])) + [{"kind": "outputs", "map": dict(ren)}]
                w["flat_outputs"] = [ren.get(o, o) for o in w["flat_outputs"]]
                for x in outer:
                    if x["k"] != "graph":
                        x["params"] = [ren.get(q, q) for q in x["params"]]
        nodes = outer
        depth = 1 if any(w["k"] == "graph" for w in outer) else 0
    elif depth:
        renamed = prob(draw, 0.12)
        outer, hidden, inactive = draw(gen.nest_spec(topo, depth, {}, permute_names=renamed))
        if hidden or inactive:  # keep every inner node in play: the diagram is judged on the full structure
            outer, hidden, inactive = draw(gen.nest_spec(topo, depth, {}, permute_names=False))
            renamed = False
        nodes = outer
        if hidden or inactive:
            depth = 0
            nodes = [dict(n) for n in topo]
        elif depth >= 2 and prob(draw, 0.25):
            # a container that carries the same name as the container around it (`sub0/sub0`): names are scoped per graph
            def _same_name(ns, parent):
                for x in ns:
                    if x["k"] == "graph":
                        if parent is not None and x["name"] != parent:
                            x["name"] = parent
                            x["graph"]["name"] = parent
                            return True
                        if _same_name(x["graph"]["nodes"], x["name"]):
                            return True
                return False
            same_name = _same_name(nodes, None)
    else:
        nodes = [dict(n) for n in topo]
    # a gate INSIDE the (outermost) nested graph, routing between two of its own function nodes
    if depth >= 1 and not renamed and not siblings and prob(draw, 0.3):
        w = next((n for n in nodes if n["k"] == "graph"), None)
        inner_funcs = [x["name"] for x in w["graph"]["nodes"] if x["k"] == "func"] if w else []
        if len(inner_funcs) >= 2:
            t, f = draw(st.permutations(inner_funcs))[:2]
            if prob(draw, 0.4):
                f = "END"  # the inner gate ends its own graph's run
            inner_names = sorted({p for x in w["graph"]["nodes"] if x["k"] == "func" for p in x["params"]})
            gp = list(dict.fromkeys(draw(st.lists(st.sampled_from(inner_names), max_size=1)))) if inner_names else []
            w["graph"]["nodes"] = w["graph"]["nodes"] + [{"k": "ifelse", "name": "gin", "params": gp, "defaults": {}, "t": t, "f": f, "table": [True]}]
            if gp and gp[0] not in w.get("flat_inputs", []) and gp[0] not in {o for x in w["graph"]["nodes"] for o in x.get("outs", [])}:
                pass
    # thin wrapper: put the single wrapper inside another graph that has no edges of its own
    thin = depth >= 1 and not siblings and prob(draw, 0.25)
    gates = []
    top_names = [n["name"] for n in nodes]
    if prob(draw, 0.4):
        avail = sorted(({p for n in topo for p in n["params"]} | {o for n in topo for o in n["outs"]}) - ren_all)
        for gi in range(draw(st.integers(1, 2))):
            params = list(dict.fromkeys(draw(st.lists(st.sampled_from(avail), max_size=2)))) if avail else []
            t = draw(st.sampled_from(top_names))
            f = draw(st.sampled_from([x for x in top_names + ["END"] if x != t]))
            if draw(st.booleans()):
                gates.append({"k": "ifelse", "name": f"gt{gi}", "params": params, "defaults": {}, "t": t, "f": f, "table": [True]})
            else:
                extra = draw(st.lists(st.sampled_from(top_names + ["END"]), max_size=2))
                targets = list(dict.fromkeys([t, f] + extra))
                gates.append({"k": "route", "name": f"gt{gi}", "params": params, "defaults": {}, "targets": targets, "fallback": None, "multi": draw(st.booleans()), "table": [None]})
    # a gate that also EMITS an ordering signal, with a non-target waiter (preferably one sharing an input with the gate)
    for g_ in gates:
        if prob(draw, 0.3):
            tg = {g_.get("t"), g_.get("f"), *g_.get("targets", [])}
            cands = [n for n in nodes if n["k"] == "func" and n["name"] not in tg and not n.get("wait_for") and not n.get("emit")]
            shared = [n for n in cands if set(n["params"]) & set(g_["params"])]
            if cands:
                w = draw(st.sampled_from(shared or cands))
                sig = "gsig_" + g_["name"]
                g_["emit"] = [sig]
                for coll in (nodes, topo):
                    for n in coll:
                        if n.get("name") == w["name"] and n["k"] == "func":
                            n["wait_for"] = list(n.get("wait_for", [])) + [sig]
    mutex = None
    if depth == 0 and not gates and prob(draw, 0.7):
        mutex = {"param": draw(st.sampled_from(sorted({p for n in topo for p in n["params"]} - {o for n in topo for o in n["outs"]}) or ["zz"]))}
    extra = []
    if mutex is not None and mutex["param"] != "zz" and mutex["param"] not in ref.producers(topo):
        pm = mutex["param"]
        if prob(draw, 0.35):
            extra = [{"k": "func", "name": "br_a", "params": [], "defaults": {}, "outs": [pm]}, {"k": "func", "name": "br_b", "params": [], "defaults": {}, "outs": [pm]},
                     {"k": "ifelse", "name": "mx", "params": [], "defaults": {}, "t": "br_a", "f": "br_b", "table": [True, False]}]
        else:
            # the two exclusive producers live in SIBLING containers (same depth, same output name)
            mutex["nested"] = True
            same = prob(draw, 0.6)  # both containers wrap the SAME Graph object
            extra = [{"k": "graph", "name": c_, "flat_inputs": [], "flat_outputs": [pm], "renames": [], **({"share": "mx"} if same else {}),
                      "graph": {"name": "cAB" if same else c_, "nodes": [{"k": "func", "name": "br_s" if same else b_, "params": [], "defaults": {}, "outs": [pm]}]}} for c_, b_ in (("cA", "br_a"), ("cB", "br_b"))]
            mutex["paths"] = ["cA/br_s", "cB/br_s"] if same else ["cA/br_a", "cB/br_b"]
            extra.append({"k": "ifelse", "name": "mx", "params": [], "defaults": {}, "t": "cA", "f": "cB", "table": [True, False]})
            depth = 1
    else:
        mutex = None
    return {"topo": topo, "nodes": draw(gen.permuted(nodes + gates + extra)), "depth": depth, "thin": thin, "renamed": renamed, "mutex": mutex, "siblings": siblings, "trap": trap, "same_name": same_name}


def strategy(tier):
    return _case(tier)


# ------------------------------------------------------------------------------------
# IR side: tree, leaf paths, dependencies
# ------------------------------------------------------------------------------------


HIDDEN = [set()]  # set per case: paths of leaves declared with hide=True (left out of diagrams together with their edges)


def _walk(nodes, prefix, tree, leaf_path):
    for n in nodes:
        pid = prefix + n["name"]
        tree[pid] = prefix[:-1] if prefix else None
        if n["k"] == "graph":
            _walk(n["graph"]["nodes"], pid + "/", tree, leaf_path)
        else:
            leaf_path[n["name"]] = pid
            if n.get("hide"):
                HIDDEN[0].add(pid)


def _ancestors(pid):
    parts = pid.split("/")
    return ["/".join(parts[:k]) for k in range(len(parts) - 1, 0, -1)]


def _deps(case, leaf_path, tree):
    """(kind, producer path, consumer path, value). Names are the flat program's (renames only relabel the boundary)."""
    topo = case["topo"]
    prod = ref.producers(topo)
    deps = []
    for n in topo:
        for p in n["params"]:
            if p in prod:
                deps.append(("data", leaf_path[prod[p]["name"]], leaf_path[n["name"]], p))
    emitters = {o: n["name"] for n in topo for o in n.get("emit", [])}
    for n in topo:
        for w in n.get("wait_for", []):
            if w in emitters:
                deps.append(("ordering", leaf_path[emitters[w]], leaf_path[n["name"]], w))
    input_consumers = {}
    mx = case.get("mutex")
    for n in topo:
        for p in n["params"]:
            if p not in prod:
                if mx and p == mx["param"]:
                    for bpath in (mx.get("paths") or [leaf_path["br_a"], leaf_path["br_b"]]):
                        deps.append(("data", bpath, leaf_path[n["name"]], p))
                    continue
                input_consumers.setdefault(p, []).append(leaf_path[n["name"]])
    def gates_of(nodes, prefix):
        for g in nodes:
            if g["k"] == "graph":
                yield from gates_of(g["graph"]["nodes"], prefix + g["name"] + "/")
            elif g["k"] in ("ifelse", "route"):
                yield prefix, g

    for prefix, g in gates_of(case["nodes"], ""):
        gid = prefix + g["name"]
        for sig in g.get("emit", []):
            for n in topo:
                if sig in n.get("wait_for", []):
                    deps.append(("ordering", gid, leaf_path[n["name"]], sig))
        ts = [g["t"], g["f"]] if g["k"] == "ifelse" else g["targets"]
        for t in dict.fromkeys(ts):
            deps.append(("control", gid, "__end__" if t == "END" else prefix + t, ""))
        for p in g["params"]:
            if p in prod:
                deps.append(("data", leaf_path[prod[p]["name"]], gid, p))
            else:
                input_consumers.setdefault(p, []).append(gid)
    return deps, input_consumers


# ------------------------------------------------------------------------------------
# checks on one rendered state
# ------------------------------------------------------------------------------------

def Violation(kind, detail="", **sig):
    """Every C20 violation carries whether the case has renamed (name-colliding) wrapper boundaries."""
    sig.setdefault("renamed", RENAMED[0])
    return _Violation(kind, detail, **sig)


RENAMED = [False]  # set per case: wrapper boundaries renamed over a permuted (colliding) name pool
RC = [{}]  # set per case: container path -> every name (inner and outer) in its rename maps


def _renaming_containers(nodes, prefix=""):
    out = {}
    for n in nodes:
        if n["k"] == "graph":
            names = {x for st_ in n.get("renames", []) for kv in st_.get("map", {}).items() for x in kv}
            if names:
                out[prefix + n["name"]] = names
            out.update(_renaming_containers(n["graph"]["nodes"], prefix + n["name"] + "/"))
    return out


def _boundary(p, c, names, rc):
    """(value renamed at a container boundary on its way from p to c, that container is expanded on the consumer side)."""
    hit = [a for a in _ancestors(c) + _ancestors(p) if RC[0].get(a, set()) & set(names)]
    exp = any(a in _ancestors(c) and rc and rc[0].startswith(a + "/") for a in hit)
    return bool(hit), exp


def _edge_boundary(*ends):
    return any(a in RC[0] for e in ends if e for a in [e] + _ancestors(e))
EV = [None]
GATED = [{}]  # set per case: node path -> [input names of the gates that have it as a target]


def _gated_same(c, q):
    """c is a direct target of a gate that itself takes the input q: the diagrams deliberately draw q to the gate only."""
    return any(q in ps for x in [c] + _ancestors(c) for ps in GATED[0].get(x, []))


def flag(v):
    """Report a violation unless it matches an open known finding; in that case count it and keep checking the rest of the
    state, so the search budget is spent behind the finding."""
    from ..core import match_open

    known = match_open(ID, v.sig)
    if known is None:
        raise v
    if EV[0] is not None:
        EV[0].known_excluded[known["id"]] += 1



ORDER = [[]]  # node-list order of the top level (the graph links a consumer to the FIRST listed producer of a name)


def _second_producer(p, v, order):
    """p is a producer of the shared name v that is not the first one in the node list (known finding F9)."""
    prods = [n["name"] for n in order if v in (n.get("outs") or n.get("flat_outputs") or [])]
    return len(prods) >= 2 and p.split("/")[0] != prods[0]


def _folded(kind, p, c, deps):
    """An ordering dependency that crosses a container boundary while a DATA edge links the same pair of nodes at the level
    where the two meet: the graph keeps the data edge only (known finding F20)."""
    if kind != "ordering":
        return False
    pp, cc = p.split("/"), c.split("/")
    i = 0
    while i < min(len(pp), len(cc)) - 1 and pp[i] == cc[i]:
        i += 1
    a, b = "/".join(pp[: i + 1]), "/".join(cc[: i + 1])
    if a == p and b == c:
        return False  # both are plain nodes of one scope: the pair's own data edge is a drawn link between them
    for k, p2, c2, _ in deps:
        if k == "data" and (p2 == a or p2.startswith(a + "/")) and (c2 == b or c2.startswith(b + "/")):
            return True
    return False


def _shape(p, c, rp, rc):
    """Where the visible representatives sit: the known finding F10 is confined to a collapsed container that itself lies
    inside an expanded one (its id contains '/')."""
    def side(x, r):
        if r[0] == x:
            return "leaf"
        return "collapsed_inner" if "/" in r[0] else "collapsed_top"
    return f"producer_{side(p, rp)}__consumer_{side(c, rc)}"



PAIRS = [[]]  # set per case: (node path, output name) of every node with outputs, containers included


def _data_id_collisions(dup, san=False):
    """DATA node ids are built as data_<node id>_<output name>; with '_' inside names two different (node, output) pairs can
    spell the same id.  Returns the colliding pairs when EVERY duplicated id is explained that way."""
    out = []
    for d in dup:
        hits = [(pth, o) for pth, o in PAIRS[0] if (_san(f"data_{pth}_{o}") if san else f"data_{pth}_{o}") == d]
        if len(set(hits)) < 2:
            return []
        out.append(sorted(set(hits)))
    return out


def _hidden_inner(src, w, deps, reps):
    """The edge src -> w enters an expanded container whose only consumers of that producer's values are marked hide=True:
    the renderers then attach the edge to the container's first entry node (finding F28)."""
    if not src or not w or "/" not in w:
        return False
    for k, p, c, _v in deps:
        if k == "data" and c in HIDDEN[0] and src in reps(p):
            par = c.rsplit("/", 1)[0] if "/" in c else None
            if par is not None and (w == par or w.startswith(par + "/")):
                return True
    return False


def by_id_hidden(nodes_list, pid):
    return any(n["id"] == pid and n.get("hidden") for n in nodes_list)


def _check_state(tag, nodes_list, edges_list, tree, deps, input_consumers, sep, value_alias, stats):
    ids = [n["id"] for n in nodes_list]
    if len(ids) != len(set(ids)):
        dup = sorted({i for i in ids if ids.count(i) > 1})
        coll = _data_id_collisions(dup)
        flag(Violation("c20.node_declared_twice", f"[{tag}] node ids declared more than once: {dup}" + (f"; the DATA node ids of {coll} coincide" if coll else ""), data_id_concatenation=bool(coll), view="interactive"))
        if sep:
            return  # (known finding F26: with two DATA nodes under one id the separate-outputs state cannot be read unambiguously)
    declared = set(ids)
    shown_hidden = [p for p in HIDDEN[0] if p in declared and not by_id_hidden(nodes_list, p)]
    if shown_hidden:
        raise Violation("c20.hidden_node_shown", f"[{tag}] nodes declared with hide=True appear in the diagram: {shown_hidden}")
    missing_nodes = [p for p in tree if p not in declared and p not in HIDDEN[0]]
    if missing_nodes:
        raise Violation("c20.graph_node_missing", f"[{tag}] graph nodes without a declaration in this state: {missing_nodes}")
    by_id = {n["id"]: n for n in nodes_list}
    vis = {n["id"] for n in nodes_list if not n.get("hidden")} - HIDDEN[0]
    for e in edges_list:
        for end in (e["source"], e["target"]):
            if end not in declared:
                raise Violation("c20.edge_endpoint_undeclared", f"[{tag}] edge {e['source']} -> {e['target']} ({e['data'].get('edgeType')}) ends at {end!r}, which is not a node of this state", end="source" if end == e["source"] else "target")
    drawn = [e for e in edges_list if e["source"] in vis and e["target"] in vis]
    for e in edges_list:
        if e["data"].get("edgeType") == "end" and e["source"] not in vis and e["source"] not in HIDDEN[0]:
            # (the gate itself is folded away in this state; an END edge is drawn from a gate one can see)
            raise Violation("c20.edge_from_invisible_node", f"[{tag}] END edge from {e['source']}, which is not a visible node of this state", dep="end")

    def reps(path):
        if path == "__end__":
            return ["__end__"] if "__end__" in vis else []
        return [x for x in [path] + _ancestors(path) if x in vis]

    def inside(path):
        return {x for x in vis if x == path or x.startswith(path + "/")}

    data_nodes = {n["id"]: n for n in nodes_list if n.get("data", {}).get("nodeType") == "DATA"}
    E = {(e["source"], e["target"]) for e in drawn}
    Ek = {}
    for e in drawn:
        Ek.setdefault((e["source"], e["target"]), []).append(e["data"])

    # ---- completeness
    for kind, p, c, v in deps:
        if p in HIDDEN[0] or c in HIDDEN[0]:
            continue  # edges that touch a node marked hide=True are left out with it
        rp = reps(p)
        rc = reps(c) if kind != "control" or c == "__end__" else sorted(inside(c)) or reps(c)
        if not rp or not rc:
            continue
        if c == "__end__" and "/" in p and rp != [p]:
            continue  # an inner gate's END ends its own graph's run: nothing to draw once the gate is folded away
        if rp[0] == rc[0]:
            continue  # both ends inside one collapsed container
        ok = False
        names = value_alias.get(v, {v})
        for u in rp:
            for w in rc:
                if u == w:
                    continue
                if (u, w) in E:
                    ok = True
                if sep:
                    # via a DATA node of u (for an ordering/control dependency any drawn link between the pair counts:
                    # the graph itself folds an ordering edge into an existing data edge of the same pair)
                    for d, dn in data_nodes.items():
                        if d in vis and dn["data"].get("sourceId") == u and (kind != "data" or dn["data"].get("label") in names) and (d, w) in E:
                            ok = True
        if not ok:
            br, cx = _boundary(p, c, names, rc)
            flag(Violation("c20.missing_edge", f"[{tag}] {kind} dependency {p} -> {c} ({v!r}) is not drawn between visible representatives {rp} and {rc}",
                           dep=kind, mode="sep" if sep else "merged", shape=_shape(p, c, rp, rc), inner_collapsed="collapsed_inner" in _shape(p, c, rp, rc),
                           producer_in_collapsed_inner=_shape(p, c, rp, rc).startswith("producer_collapsed_inner"),
                           folded=_folded(kind, p, c, deps), second_producer=_second_producer(p, v, ORDER[0]), boundary_renamed=br, consumer_expanded=cx,
                           fuzzy_name_match=bool(br) and any(o in a or a in o for a in names for o in {v2 for _, _, _, v2 in deps if v2} - set(names))))
        stats["deps_checked"] += 1
    # ---- completeness for graph inputs: every consumer of an input is linked to an INPUT node that lists it
    in_edges = {}
    for e in edges_list:
        # (an INPUT node owned by a collapsed container is declared hidden on purpose; its edge still says where the input goes)
        if e["data"].get("edgeType") == "input" and e["target"] in vis:
            lab = by_id[e["source"]].get("data", {}).get("label")
            ps = ([lab] if isinstance(lab, str) else []) + list(by_id[e["source"]].get("data", {}).get("params", []) or [])
            for q in ps:
                in_edges.setdefault(q, set()).add(e["target"])
    for q, cons in input_consumers.items():
        for c in cons:
            rc = reps(c)
            if not rc or c in HIDDEN[0]:
                continue
            if not (in_edges.get(q, set()) & set(rc)):
                flag(Violation("c20.missing_input_edge", f"[{tag}] input {q!r} is consumed by {c} but no INPUT node listing it is linked to any of {rc} (linked to {sorted(in_edges.get(q, []))})",
                               mode="sep" if sep else "merged", view="interactive", gated_by_consumer_of_same_input=_gated_same(c, q), inner_collapsed="/" in rc[0] and rc[0] != c))
            stats["deps_checked"] += 1
    # ---- soundness
    for e in drawn:
        et = e["data"].get("edgeType")
        u, w = e["source"], e["target"]
        if et == "output":
            dn = data_nodes.get(w)
            if dn is None or dn["data"].get("sourceId") != u:
                raise Violation("c20.bad_output_edge", f"[{tag}] output edge {u} -> {w} does not lead to a DATA node of {u}")
            continue
        if et == "input":
            label = by_id[u].get("data", {}).get("label")
            params = [label] if isinstance(label, str) else []
            # grouped inputs list several parameters
            params += [x for x in by_id[u].get("data", {}).get("params", []) or []]
            cons = [c for p in params for c in input_consumers.get(p, [])]
            if params and not any(w in reps(c) for c in cons):
                known = any(p in input_consumers for p in params)
                if known:
                    flag(Violation("c20.spurious_input_edge", f"[{tag}] input edge {u} ({params}) -> {w}: {w} is not a representative of any consumer of these inputs ({cons})"))
            continue
        if et == "end":
            if not any(k == "control" and c == "__end__" and u in reps(p) for k, p, c, _ in deps):
                raise Violation("c20.spurious_edge", f"[{tag}] END edge from {u} without a gate routing to END", dep="end")
            continue
        src = u
        if u in data_nodes:
            src = data_nodes[u]["data"].get("sourceId")
        kinds = {"data": ("data",), "control": ("control",), "ordering": ("ordering",)}.get(et, ("data", "control", "ordering"))
        ok = False
        for k, p, c, v in deps:
            if k not in kinds:
                continue
            rc = reps(c) if k != "control" or c == "__end__" else (sorted(inside(c)) or reps(c))
            if src in reps(p) and w in rc:
                if k == "data" and e["data"].get("valueName") not in (None, "") and e["data"].get("valueName") not in value_alias.get(v, {v}):
                    continue
                ok = True
                break
        if not ok:
            flag(Violation("c20.spurious_edge", f"[{tag}] {et} edge {u} -> {w} ({e['data'].get('valueName')!r}) corresponds to no {et} dependency", dep=str(et), mode="sep" if sep else "merged",
                           boundary_renamed=_edge_boundary(src, w), hidden_inner_consumer=_hidden_inner(src, w, deps, reps)))
        stats["edges_checked"] += 1


# ------------------------------------------------------------------------------------
# Mermaid
# ------------------------------------------------------------------------------------

_RESERVED = {"end", "subgraph", "direction", "click", "style", "classdef", "class", "linkstyle", "graph", "flowchart"}


def _san(node_id):
    s = node_id.replace("/", "__")
    s = re.sub(r"[^a-zA-Z0-9_]", "_", s)
    if s and (s.lower() in _RESERVED or s[0].isdigit()):
        s = "n_" + s
    return s or "n_empty"


_NODE_RE = re.compile(r"^\s*([A-Za-z0-9_]+)\s*[\[\(\{>]")
_SUB_RE = re.compile(r"^\s*subgraph\s+([A-Za-z0-9_]+)")
_EDGE_RE = re.compile(r"^\s*([A-Za-z0-9_]+)\s*(-->|-\.->|==>)\s*(?:\|[^|]*\|\s*)?([A-Za-z0-9_]+)\s*$")


def _parse_mermaid(src):
    declared, subgraphs, edges = [], [], []
    for line in src.splitlines():
        if line.strip().startswith("%%") or line.strip().startswith("classDef") or line.strip().startswith("class ") or line.strip().startswith("linkStyle") or line.strip().startswith("style "):
            continue
        m = _SUB_RE.match(line)
        if m:
            subgraphs.append(m.group(1))
            continue
        m = _EDGE_RE.match(line)
        if m:
            edges.append((m.group(1), m.group(3), "ordering" if m.group(2) == "-.->" else "solid"))
            continue
        m = _NODE_RE.match(line)
        if m:
            declared.append(m.group(1))
    return declared, subgraphs, edges


def _check_mermaid(tag, src, depth, sep, tree, deps, input_consumers, value_alias, stats):
    declared, subgraphs, edges = _parse_mermaid(src)
    all_ids = declared + subgraphs
    if len(all_ids) != len(set(all_ids)):
        dup = sorted({i for i in all_ids if all_ids.count(i) > 1})
        coll = _data_id_collisions(dup, san=True)
        flag(Violation("c20.mermaid_declared_twice", f"[{tag}] Mermaid ids declared twice: {dup}" + (f"; the DATA node ids of {coll} coincide" if coll else ""), data_id_concatenation=bool(coll), view="mermaid"))
        if sep:
            return
    known = set(all_ids)
    ghost = set()
    for u, w, _ in edges:
        for end in (u, w):
            if end not in known:
                # a DATA node spelled with the OUTER name of an output that a wrapper renamed (the node that exists carries the inner name)
                ren_out = any(end == _san(f"data_{pth}_{outer}") for pth, o in PAIRS[0] for outer in value_alias.get(o, ()) if outer != o)
                flag(Violation("c20.mermaid_endpoint_undeclared", f"[{tag}] Mermaid edge {u} --> {w} ends at undeclared {end!r}", data_node_under_outer_name=ren_out))
                ghost.add(end)
    edges = [e_ for e_ in edges if e_[0] not in ghost and e_[1] not in ghost]
    # expected visibility at this depth: a node is visible iff all its ancestors are expanded (depth of ancestor < depth)
    def level(pid):
        return pid.count("/")

    containers = {p for p in tree if any(q != p and tree[q] == p for q in tree)}
    visible = {p for p in tree if level(p) <= depth and p not in HIDDEN[0]}
    expanded = {p for p in containers if level(p) < depth}
    back = {_san(p): p for p in tree}
    back[_san("__end__")] = "__end__"
    for p in visible:
        sid = _san(p)
        if p in expanded:
            if sid not in subgraphs:
                raise Violation("c20.mermaid_container_not_expanded", f"[{tag}] container {p} should be drawn as an open subgraph at depth {depth}", depth=depth)
        elif sid not in declared:
            if sid in subgraphs:
                raise Violation("c20.mermaid_collapsed_drawn_open", f"[{tag}] {p} is beyond depth {depth} and must be a collapsed node, but it is drawn as an open subgraph", depth=depth)
            raise Violation("c20.mermaid_node_missing", f"[{tag}] visible node {p} is not declared in the Mermaid source", depth=depth)
    for sid in all_ids:
        p = back.get(sid)
        if p is not None and p != "__end__" and p not in visible:
            raise Violation("c20.mermaid_invisible_declared", f"[{tag}] {p} lies below depth {depth} but is declared in the Mermaid source", depth=depth)
    vis = set(visible) | {"__end__"}

    def reps(path):
        if path == "__end__":
            return ["__end__"]
        return [x for x in [path] + _ancestors(path) if x in vis]

    def inside(path):
        return {x for x in vis if x == path or x.startswith(path + "/")}

    # DATA node ids in Mermaid: data_<source>_<output>
    def data_srcs(sid):
        """Every node the DATA id may belong to (ids are concatenations: with '_' in names there can be two, finding F26)."""
        if not sid.startswith("data_"):
            return []
        exact = sorted({pth for pth, o in PAIRS[0] if _san(f"data_{pth}_{o}") == sid})
        if exact:
            return exact
        best = None
        for p in tree:
            pre = "data_" + _san(p) + "_"
            if sid.startswith(pre) and (best is None or len(p) > len(best)):
                best = p
        return [best] if best is not None else []

    def data_src(sid):
        c = data_srcs(sid)
        return c[0] if c else None

    E = set()
    for u, w, style in edges:
        E.add((u, w))
    for kind, p, c, v in deps:
        if p in HIDDEN[0] or c in HIDDEN[0]:
            continue
        rp = reps(p)
        rc = reps(c) if kind != "control" or c == "__end__" else (sorted(inside(c)) or reps(c))
        if not rp or not rc or rp[0] == rc[0]:
            continue
        if c == "__end__" and "/" in p and rp != [p]:
            continue  # (as above)
        ok = False
        for u in rp:
            for w in rc:
                if u == w:
                    continue
                if (_san(u), _san(w)) in E:
                    ok = True
                if sep:
                    for d in declared:
                        if u in data_srcs(d) and (_san(u), d) in E and (d, _san(w)) in E:
                            ok = True
        if not ok:
            br, cx = _boundary(p, c, value_alias.get(v, {v}), rc)
            flag(Violation("c20.mermaid_missing_edge", f"[{tag}] {kind} dependency {p} -> {c} ({v!r}) is not drawn between {rp} and {rc}", dep=kind, mode="sep" if sep else "merged",
                           shape=_shape(p, c, rp, rc), inner_collapsed="collapsed_inner" in _shape(p, c, rp, rc), producer_in_collapsed_inner=_shape(p, c, rp, rc).startswith("producer_collapsed_inner"),
                           folded=_folded(kind, p, c, deps), second_producer=_second_producer(p, v, ORDER[0]),
                           boundary_renamed=br, consumer_expanded=cx,
                           fuzzy_name_match=bool(br) and any(o in a or a in o for a in value_alias.get(v, {v}) for o in {v2 for _, _, _, v2 in deps if v2} - set(value_alias.get(v, {v})))))
        stats["deps_checked"] += 1
    # ---- graph inputs: every consumer of an input is linked to the input node (or input group) that lists it
    pure = sorted(input_consumers)
    def group_params(sid):
        if sid.startswith("input_group_"):
            rest = sid[len("input_group_"):]
            def split(r):
                if not r:
                    return []
                for q in pure:
                    sq = re.sub(r"[^a-zA-Z0-9_]", "_", q)
                    if r == sq:
                        return [q]
                    if r.startswith(sq + "_"):
                        t = split(r[len(sq) + 1:])
                        if t is not None:
                            return [q] + t
                return None
            return split(rest) or []
        return [q for q in pure if sid == "input_" + re.sub(r"[^a-zA-Z0-9_]", "_", q)]
    in_edges = {}
    for u, w, style in edges:
        if u.startswith("input"):
            for q in group_params(u):
                in_edges.setdefault(q, set()).add(w)
    for q, cons in input_consumers.items():
        for c in cons:
            rc = reps(c)
            if not rc or _gated_same(c, q) or c in HIDDEN[0]:
                continue  # (an input that a gate takes is drawn to the gate only, not again to the gate's own targets: deliberate)
            if not (in_edges.get(q, set()) & {_san(x) for x in rc}):
                flag(Violation("c20.missing_input_edge", f"[{tag}] input {q!r} is consumed by {c} but no input node listing it is linked to any of {rc} (linked to {sorted(in_edges.get(q, []))})",
                               mode="sep" if sep else "merged", view="mermaid", gated_by_consumer_of_same_input=False, inner_collapsed="/" in rc[0] and rc[0] != c))
            stats["deps_checked"] += 1
    for u, w, style in edges:
        if u.startswith("input"):
            continue
        if w.startswith("data_"):
            if u not in {_san(x) for x in data_srcs(w)}:
                raise Violation("c20.mermaid_bad_output_edge", f"[{tag}] {u} --> {w} is not an output edge of {u}")
            continue
        srcs = {u}
        if u.startswith("data_") and data_srcs(u):
            srcs = {_san(x) for x in data_srcs(u)}
        src = sorted(srcs)[0]
        kinds = ("ordering",) if style == "ordering" else ("data", "control")
        ok = False
        for k, p, c, v in deps:
            if k not in kinds:
                continue
            rc = reps(c) if k != "control" or c == "__end__" else (sorted(inside(c)) or reps(c))
            if srcs & {_san(x) for x in reps(p)} and w in {_san(x) for x in rc}:
                ok = True
                break
        if not ok:
            unsan = {_san(x): x for x in tree}
            flag(Violation("c20.mermaid_spurious_edge", f"[{tag}] Mermaid edge {u} {'-.->' if style == 'ordering' else '-->'} {w} corresponds to no dependency", style=style,
                           boundary_renamed=_edge_boundary(unsan.get(src), unsan.get(w)),
                           hidden_inner_consumer=any(_hidden_inner(unsan.get(x), unsan.get(w), deps, reps) for x in srcs if unsan.get(x) and unsan.get(w))))
        stats["edges_checked"] += 1


# ------------------------------------------------------------------------------------


def check_case(case, ev):
    from hypergraph.viz.renderer import render_graph

    nodes = case["nodes"]
    labels = {f"depth:{case['depth']}"}
    RENAMED[0] = bool(case["renamed"])
    RC[0] = _renaming_containers(case["nodes"])
    EV[0] = ev
    ORDER[0] = list(case["nodes"])
    spec = {"nodes": nodes, "name": "top"}
    if case["thin"]:
        # the wrapper is pushed one level down into a graph that holds nothing else
        new = []
        for n in nodes:
            if n["k"] == "graph":
                new.append({"k": "graph", "name": "thin", "graph": {"nodes": [n], "name": "thin"}, "flat_inputs": n.get("flat_inputs", []), "flat_outputs": n.get("flat_outputs", [])})
            else:
                new.append({**n, **({"t": "thin" if n.get("t") == _wrapper_name(nodes) else n.get("t"), "f": "thin" if n.get("f") == _wrapper_name(nodes) else n.get("f")} if n["k"] == "ifelse" else {}),
                            **({"targets": ["thin" if t == _wrapper_name(nodes) else t for t in n["targets"]]} if n["k"] == "route" else {})})
        nodes = new
        spec = {"nodes": nodes, "name": "top"}
        labels.add("thin_wrapper_level")
    ctx = Ctx(compact=True)
    try:
        g = make_graph(ctx, spec, "sync")
    except Exception as e:  # noqa: BLE001
        ev.discard("construct:" + type(e).__name__ + ":" + str(e).split("\n")[0][:40])
        return
    tree, leaf_path = {}, {}
    HIDDEN[0] = set()
    _walk(nodes, "", tree, leaf_path)
    PAIRS[0] = []

    def _pairs(ns, prefix):
        for x in ns:
            if x["k"] == "graph":
                sub = _pairs(x["graph"]["nodes"], prefix + x["name"] + "/")
                ren = {}
                for st_ in x.get("renames", []):
                    if st_.get("kind") == "outputs":
                        ren.update(st_.get("map", {}))
                outs_ = [ren.get(o, o) for o in sub]
                PAIRS[0].extend((prefix + x["name"], o) for o in outs_)
            else:
                outs_ = list(x.get("outs", []))
                PAIRS[0].extend((prefix + x["name"], o) for o in outs_)
        return [o for x in ns for o in (x.get("outs", []) if x["k"] != "graph" else x.get("flat_outputs", []))]

    _pairs(nodes, "")
    if HIDDEN[0]:
        labels.add("nodes_marked_hide")
    if case.get("trap"):
        labels.add("names_whose_concatenations_coincide")
    if (case.get("mutex") or {}).get("paths", [""])[0].endswith("br_s"):
        labels.add("one_graph_object_wrapped_twice")
    deps, input_consumers = _deps({**case, "nodes": nodes}, leaf_path, tree)
    GATED[0] = {}
    gparams = {}
    def _gp(ns, prefix):
        for x in ns:
            if x["k"] == "graph":
                _gp(x["graph"]["nodes"], prefix + x["name"] + "/")
            elif x["k"] in ("ifelse", "route"):
                gparams[prefix + x["name"]] = list(x["params"])
    _gp(nodes, "")
    for k_, p_, c_, _v in deps:
        if k_ == "control" and c_ != "__end__":
            GATED[0].setdefault(c_, []).append(gparams.get(p_, []))
    # a renamed boundary shows a value under several names along its way: all of them label the same dependency
    value_alias = _aliases(nodes)
    if case["renamed"]:
        labels.add("renamed_boundaries")
    if case.get("same_name"):
        labels.add("container_named_like_the_container_around_it")
    if case.get("siblings"):
        labels.add("sibling_containers")
        if any(n.get("renames") for n in nodes if n["k"] == "graph"):
            labels.add("sibling_container_with_fresh_inner_input_names")
        if any(st_.get("kind") == "outputs" for n in nodes if n["k"] == "graph" for st_ in n.get("renames", [])):
            labels.add("sibling_container_output_exposed_under_a_fresh_name")
    # ---- flat graph
    fg = g.to_flat_graph()
    got_tree = {n: d.get("parent") for n, d in fg.nodes(data=True)}
    if got_tree != tree:
        raise Violation("c20.flat_graph_tree", f"to_flat_graph nodes/parents {got_tree} differ from the graph's tree {tree}")
    fedges = {(u, v) for u, v in fg.edges()}
    for kind, p, c, v in deps:
        if kind == "control" or tree.get(p) != tree.get(c):
            continue  # edges inside one scope appear verbatim in the flat graph
        if _second_producer(p, v, ORDER[0]):
            flag(Violation("c20.flat_graph_edge_missing", f"to_flat_graph lacks the data edge {p} -> {c} ({v!r}): {p} is a further producer of that name", second_producer=True)) if (p, c) not in fedges else None
            continue
        if (p, c) not in fedges:
            raise Violation("c20.flat_graph_edge_missing", f"to_flat_graph lacks the {kind} edge {p} -> {c} ({v!r}) although both nodes live in scope {tree.get(p)!r}", level=p.count("/"))
    stats = {"deps_checked": 0, "edges_checked": 0, "states": 0}
    crossing = any(tree.get(p) != tree.get(c) for k, p, c, v in deps if c != "__end__")
    # ---- interactive view
    r = render_graph(fg)
    nbs, ebs = r["meta"]["nodesByState"], r["meta"]["edgesByState"]
    if set(nbs) != set(ebs):
        raise Violation("c20.state_keys_differ", f"nodesByState keys {sorted(nbs)} != edgesByState keys {sorted(ebs)}")
    containers = [p for p in tree if any(tree[q] == p for q in tree)]
    if len(nbs) < 2 * max(1, len(containers)) and containers:
        raise Violation("c20.too_few_states", f"{len(containers)} containers but only {len(nbs)} states: {sorted(nbs)}")
    if case.get("many") and len(nbs) != 2 * 2 ** len(containers):
        raise Violation("c20.too_few_states", f"{len(containers)} sibling containers have {2 ** len(containers)} expansion states x 2 output modes, but the diagram data holds {len(nbs)} states", many=True)
    if case.get("many"):
        labels.add("nine_sibling_containers_all_states")
    outren = any(st_.get("kind") == "outputs" for n in nodes if n["k"] == "graph" and not case.get("renamed") for st_ in n.get("renames", []))
    for key in sorted(nbs):
        sep = key.endswith("sep:1")
        if outren and sep:
            # finding F23 (producer side): with a wrapper output exposed under another name the separate-outputs diagrams attach
            # edges to DATA nodes spelled with the outer name; those states are left to the finding, merged mode is checked in full
            ev.count("states_left_to_F23:renamed_output_in_separate_outputs_mode")
            continue
        _check_state(f"state {key}", nbs[key], ebs[key], tree, deps, input_consumers, sep, value_alias, stats)
        stats["states"] += 1
    # ---- Mermaid
    maxd = max((p.count("/") for p in tree), default=0)
    for d in range(0, min(3, maxd + 1) + 1):
        for sepm in (False, True):
            if outren and sepm:
                ev.count("states_left_to_F23:renamed_output_in_separate_outputs_mode")
                continue
            src = g.to_mermaid(depth=d, separate_outputs=sepm).source
            _check_mermaid(f"mermaid depth={d} sep={int(sepm)}", src, d, sepm, tree, deps, input_consumers, value_alias, stats)
            stats["states"] += 1
    ev.count("states", stats["states"])
    ev.count("dependencies_checked", stats["deps_checked"])
    ev.count("edges_checked", stats["edges_checked"])
    if any(n["k"] in ("ifelse", "route") for n in nodes):
        labels.add("gates")
    if any(n.get("emit") for n in case["topo"]):
        labels.add("ordering_edge")
    if "gin" in leaf_path:
        labels.add("gate_inside_nested_graph")
    ev.case(case, bool(containers) and crossing and stats["states"] >= 2, sorted(labels))


def _wrapper_name(nodes):
    return next((n["name"] for n in nodes if n["k"] == "graph"), None)


def _aliases(nodes):
    """flat value name -> every name it carries inside renamed wrappers (inner names differ when the pool was permuted)."""
    alias = {}

    def visit(ns):
        for n in ns:
            if n["k"] == "graph":
                for st_ in n.get("renames", []):
                    for inner, outer in st_.get("map", {}).items():
                        alias.setdefault(outer, {outer}).add(inner)
                        alias.setdefault(inner, {inner}).add(outer)
                visit(n["graph"]["nodes"])

    visit(nodes)
    # transitive closure
    changed = True
    while changed:
        changed = False
        for k in list(alias):
            for x in list(alias[k]):
                for y in alias.get(x, ()):
                    if y not in alias[k]:
                        alias[k].add(y)
                        changed = True
    return alias
