"""C14 - interrupts pause before dependants run and resume to the same result.  DESIGN.md section 4/C14."""
from __future__ import annotations

from hypothesis import strategies as st

from .. import gen, ref
from ..build import crc, Ctx, J, T, make_graph
from ..core import Violation
from ..gen import prob
from ..observe import run_async
from ..sched import run_scheduled

ID = "C14"
LEVEL = "exploration"
BUDGET = {"quick": 2992, "thorough": 30000}
SHARDS = {"quick": 16, "thorough": 16}
RULE = (
    "Hypothesis-generated acyclic programs (3-7 nodes) in which 1-3 nodes are interrupts (single and multi output, optional "
    "rename_inputs, optional emit with a waiting node), handlers drawn in {pause, auto-value}, concurrent siblings in the "
    "interrupt's step; responses drawn incl. falsy values (False, 0, '', ()); the same program with an interval nested to depth "
    "1-2 (wrapper names differing from graph names) for the pause-identity clause; AsyncRunner, also under a drawn completion "
    "schedule. Oracle: protocol loop with an accumulating answer map: on PAUSED the node is a dependency-minimal unanswered "
    "pausing interrupt, node_name is its '/'-joined path, value is the reference value of its first input, response_key(s) are "
    "its output names (dot-qualified when nested); no transitive dependant appears in that call's log; every node that completed "
    "in that call has its outputs in the returned values with the value of its last invocation; after <= #pausing rounds the run "
    "is COMPLETED and equals (i) the run whose handlers return those answers themselves and (ii) the reference evaluator with the "
    "answers as the interrupts' outputs. Non-trivial = >=2 pausing interrupts on one path, or an interrupt with a concurrent "
    "sibling and a downstream consumer."
)
ASSUMPTIONS = [
    "resuming an interrupt nested inside a graph node is not covered by the statement's quantifier (pause identity only); observed not to work today",
    "which of two independent ready interrupts pauses first is not constrained",
]

FALSY = [False, 0, "", []]


@st.composite
def _case(draw, tier):
    topo = draw(gen.g1_nodes(3, 7, default_on_edge=0.0))
    cands = [i for i, n in enumerate(topo) if n["outs"]]
    if not cands:
        topo[-1]["outs"] = ["o_last"]
        cands = [len(topo) - 1]
    k = draw(st.integers(1, min(3, len(cands))))
    chosen = draw(st.permutations(cands))[:k]
    for i in chosen:
        n = topo[i]
        n["k"] = "interrupt"
        n["mode"] = draw(st.sampled_from(["pause", "pause", "pause", "auto"]))
        n["async_handler"] = prob(draw, 0.4)  # `async def` handler: its awaited result decides, not the coroutine object
        ans = {}
        for o in n["outs"]:
            if len(n["outs"]) == 1 and prob(draw, 0.12):
                ans[o] = {o: ["ans", n["name"], o]}  # the answer IS a dict whose only key happens to be the output's name
            elif prob(draw, 0.15):
                ans[o] = {"__amb__": f"{n['name']}.{o}"}  # a response whose `!=` has no truth value (array-like)
            else:
                ans[o] = draw(st.sampled_from(FALSY)) if prob(draw, 0.25) else ["ans", n["name"], o]
        n["answers"] = ans
        if len(n["params"]) >= 2 and prob(draw, 0.3):
            p, q = n["params"][0], n["params"][1]
            n["rename_swap"] = [p, q]
    # optional emit on an interrupt with a waiter that is not one of its ancestors
    if prob(draw, 0.3):
        i = chosen[0]
        later = [j for j in range(len(topo)) if j > i and j not in chosen]
        if later:
            j = draw(st.sampled_from(later))
            topo[i]["emit"] = ["isig"]
            topo[j]["wait_for"] = ["isig"]
    nest = None
    if prob(draw, 0.35):
        nest = {"depth": draw(st.sampled_from([1, 2]))}
    return {"topo": topo, "order": draw(st.permutations(list(range(len(topo))))), "sched": draw(st.lists(st.integers(0, 7), max_size=40)),
            "nest": nest, "nest_draw": draw(st.lists(st.integers(0, 9), min_size=6, max_size=6)), "scheduled": draw(st.booleans()),
            "select_all_error": prob(draw, 0.3)}


def strategy(tier):
    return _case(tier)


def _materialise(topo, auto_all=False, answers=None):
    """IR for build: interrupts get mode/answer; auto_all turns every pausing handler into one that returns its answer."""
    out = []
    for n in topo:
        if n["k"] != "interrupt":
            out.append(n)
            continue
        m = {k: v for k, v in n.items() if k not in ("answers", "rename_swap")}
        if n.get("rename_swap"):
            # function parameters carry the swapped names; rename_inputs maps them back, so the node's inputs and the
            # positional delivery are exactly those of the reference IR
            a, b = n["rename_swap"]
            sw = {a: b, b: a}
            m["params"] = [sw.get(x, x) for x in n["params"]]
            m["defaults"] = {sw.get(k, k): v for k, v in n.get("defaults", {}).items()}
            m["rename_inputs"] = {a: b, b: a}
        ans = n["answers"]
        m["answer"] = dict(ans) if len(n["outs"]) > 1 else ans[n["outs"][0]]
        if len(n["outs"]) == 1 and not n.get("emit") and crc(n["name"]) % 2 == 0:
            # declared under a temporary output name, looked at / used in a graph, and only then renamed to the name the program uses:
            # the pause must name the CURRENT output as the key to answer under
            m["outs"] = [n["outs"][0] + "_pre"]
            m["renames"] = list(m.get("renames", [])) + [{"kind": "warm"}, {"kind": "outputs", "map": {n["outs"][0] + "_pre": n["outs"][0]}}]
        if auto_all:
            m["mode"] = "auto"
        out.append(m)
    return out


def _answers_env(topo):
    return {n["name"]: {o: T(v) for o, v in n["answers"].items()} for n in topo if n["k"] == "interrupt"}


def check_case(case, ev):
    topo = case["topo"]
    nodes_order = [topo[i] for i in case["order"]]
    labels = set()
    inter = [n for n in topo if n["k"] == "interrupt"]
    pausing = [n for n in inter if n["mode"] == "pause"]
    answers = _answers_env(topo)
    if any(not isinstance(v, tuple) or not v for a in answers.values() for v in a.values() if v in (False, 0, "", ())):
        labels.add("falsy_answer")
    if any(v in (False, 0, "", ()) for n in inter for v in (T(x) for x in n["answers"].values())):
        labels.add("falsy_answer")
    required, optional, _ = ref.input_spec(topo, {}, None)
    values0 = {p: ("in", p, 0) for p in required}
    env, args = ref.eval_dag(topo, values0, {}, answers=answers)
    desc = {n["name"]: ref.descendants(topo, {n["name"]}) - {n["name"]} for n in topo}
    anc = {n["name"]: ref.ancestors_closure(topo, {n["name"]}) - {n["name"]} for n in topo}
    prod = ref.producers(topo)

    # ---- (i) run with all handlers answering themselves
    ctx_a = Ctx()
    g_a = make_graph(ctx_a, {"nodes": _materialise(nodes_order, auto_all=True)}, "sync")
    out_a = run_async(g_a, values0)
    if out_a.status != "completed":
        raise Violation("c14.auto_run", f"run with auto-answering handlers gave {out_a.brief()}")
    want_final = {k: v for k, v in env.items()}
    if not (out_a.values == want_final):
        diff = {k: (J(out_a.values.get(k, "<absent>")), J(want_final.get(k, "<absent>"))) for k in set(out_a.values) | set(want_final) if not (out_a.values.get(k, "<absent>") == want_final.get(k, "<absent>"))}
        raise Violation("c14.auto_values", f"auto-answered run differs from the reference: (got, expected) {diff}")

    # ---- protocol loop
    supplied = {}
    answered: set = set()
    rounds = 0
    concurrent_sibling = False
    two_on_path = any(a["name"] in anc[b["name"]] for a in pausing for b in pausing if a is not b)
    while True:
        rounds += 1
        if rounds > len(pausing) + 1:
            raise Violation("c14.too_many_rounds", f"still not completed after {rounds - 1} rounds with answers {J(supplied)} ({len(pausing)} pausing interrupts)", rounds=rounds - 1)
        flavour = "async" if case["scheduled"] else "sync"
        ctx = Ctx()
        g = make_graph(ctx, {"nodes": _materialise(nodes_order)}, flavour)
        vals = {**values0, **supplied}
        # optionally every round asks for ALL outputs with on_missing="error": a pause is not a finished run, what is not
        # produced yet is not "missing" (at the end everything is produced, so the policy never legitimately fires)
        skw = {"select": list(g.outputs), "on_missing": "error"} if case.get("select_all_error") and g.outputs else {}
        if case["scheduled"]:
            out, sched = run_scheduled(ctx, g, vals, case["sched"], **skw)
            if out.status == "deadlock":
                raise Violation("c14.deadlock", f"round {rounds}: {out.error}")
        else:
            out = run_async(g, vals, **skw)
        tag = f"round {rounds} supplied={sorted(supplied)}"
        if out.status == "completed":
            break
        if out.status != "paused":
            raise Violation("c14.unexpected_status", f"[{tag}] {out.brief()}", status=out.status)
        p = out.pause
        node = next((n for n in pausing if n["name"] == p.node_name), None)
        if node is None:
            raise Violation("c14.paused_at_unknown", f"[{tag}] paused at {p.node_name!r}, pausing interrupts are {[n['name'] for n in pausing]}")
        if node["name"] in answered:
            raise Violation("c14.paused_again_after_answer", f"[{tag}] paused again at {p.node_name!r} although its response {J({k: supplied.get(k) for k in node['outs']})} was supplied", falsy=any(supplied.get(k) in (False, 0, "", ()) for k in node["outs"]))
        unanswered_anc = [a for a in anc[node["name"]] if any(x["name"] == a for x in pausing) and a not in answered]
        if unanswered_anc:
            raise Violation("c14.not_dependency_minimal", f"[{tag}] paused at {node['name']} although its ancestor interrupt(s) {unanswered_anc} are unanswered")
        # identity of the pause
        want_value = args[node["name"]][0] if node["params"] and args.get(node["name"]) else None
        first_in = node["params"][0] if node["params"] else None
        if node["params"]:
            # the value shown is the first (current) input's value
            if not (p.value == want_value):
                raise Violation("c14.pause_value", f"[{tag}] pause.value={J(p.value)} expected the interrupt's first input {first_in}={J(want_value)}")
        if p.output_param != node["outs"][0] or p.response_key != node["outs"][0]:
            raise Violation("c14.response_key", f"[{tag}] output_param={p.output_param!r} response_key={p.response_key!r}, expected {node['outs'][0]!r}")
        if p.response_keys != {o: o for o in node["outs"]}:
            raise Violation("c14.response_keys", f"[{tag}] response_keys={p.response_keys}, expected {node['outs']}")
        # nothing downstream has run
        ran = {f for f, _ in ctx.log}
        bad = sorted(ran & desc[node["name"]])
        if bad:
            raise Violation("c14.dependant_ran", f"[{tag}] nodes depending on the paused interrupt {node['name']} ran before the answer: {bad}")
        # values computed before the pause are returned
        for n in topo:
            calls = ctx.calls(n["name"])
            if not calls or n["k"] == "interrupt" and n["name"] not in answered and n["mode"] == "pause":
                continue
            for i, o in enumerate(n["outs"]):
                if n["k"] == "interrupt":
                    want = answers[n["name"]][o]
                else:
                    want = (n["name"], i, calls[-1])
                if o not in out.values:
                    raise Violation("c14.completed_value_missing", f"[{tag}] node {n['name']} completed in this call but its output {o!r} is not in the PAUSED result {sorted(out.values)}", sibling=True)
                if not (out.values[o] == want):
                    raise Violation("c14.paused_value_wrong", f"[{tag}] {o}={J(out.values[o])} expected {J(want)}")
        for k2, v in out.values.items():
            if k2 in vals:
                continue
            pn = prod.get(k2)
            if pn is None or (not ctx.calls(pn["name"]) and pn["k"] != "interrupt"):
                raise Violation("c14.value_without_execution", f"[{tag}] PAUSED result holds {k2}={J(v)} whose producer did not run")
        # siblings: a node not related to the interrupt that could have run in the same step
        depth = ref.depth(topo)
        if any(depth[n["name"]] == depth[node["name"]] and n["name"] != node["name"] and n["name"] not in desc[node["name"]] for n in topo) and desc[node["name"]]:
            concurrent_sibling = True
        # answer it
        for o in node["outs"]:
            supplied[p.response_keys[o]] = answers[node["name"]][o]
        answered.add(node["name"])
    if not (out.values == want_final):
        diff = {k: (J(out.values.get(k, "<absent>")), J(want_final.get(k, "<absent>"))) for k in set(out.values) | set(want_final) if not (out.values.get(k, "<absent>") == want_final.get(k, "<absent>"))}
        raise Violation("c14.resumed_values", f"after answering {sorted(answered)} the run completed with (got, expected) {diff}", emit=any(n.get("emit") for n in inter))
    if len(answered) != len([n for n in pausing if args.get(n["name"]) is not None]):
        raise Violation("c14.pause_count", f"paused at {sorted(answered)}, runnable pausing interrupts: {[n['name'] for n in pausing if args.get(n['name']) is not None]}")

    # ---- two runs of the SAME graph in flight on ONE AsyncRunner (handlers are `async def` and really suspend): each pauses at its
    # own interrupt with the value that flowed into that run
    firsts = [n for n in pausing if args.get(n["name"]) is not None and not any(a in {x["name"] for x in pausing} for a in anc[n["name"]])]
    if len(firsts) == 1 and firsts[0]["params"]:
        import asyncio as _aio

        from hypergraph import AsyncRunner

        from ..observe import arun as _arun2

        tgt = firsts[0]
        values1 = {p_: ("in", p_, 1) for p_ in required}
        env1, args1 = ref.eval_dag(topo, values1, {}, answers=answers)
        if args1.get(tgt["name"]) is not None and not (args1[tgt["name"]][0] == args[tgt["name"]][0]):
            ctx2 = Ctx()
            g2 = make_graph(ctx2, {"nodes": [({**n_, "async_handler": True} if n_.get("k") == "interrupt" else n_) for n_ in _materialise(nodes_order)]}, "sync")
            runner2 = AsyncRunner()

            async def both():
                return await _aio.gather(runner2.run(g2, dict(values0)), runner2.run(g2, dict(values1)))

            try:
                r0, r1 = _arun2(both())
            except Exception as e:  # noqa: BLE001
                raise Violation("c14.concurrent_runs", f"two runs of one graph awaited together on one AsyncRunner raised {type(e).__name__}: {str(e)[:200]}") from None
            for which, r_, a_ in (("first", r0, args), ("second", r1, args1)):
                if r_.status.value != "paused" or r_.pause.node_name != tgt["name"]:
                    raise Violation("c14.concurrent_runs", f"[{which} of two concurrent runs] expected a pause at {tgt['name']}, got {r_.status.value} {getattr(r_.pause, 'node_name', None)}")
                if not (r_.pause.value == a_[tgt["name"]][0]):
                    raise Violation("c14.pause_value", f"[{which} of two runs of one graph in flight on one AsyncRunner] pause.value={J(r_.pause.value)}, the value that flowed into {tgt['name']} in THAT run is {J(a_[tgt['name']][0])}",
                                    concurrent=True)
            labels.add("two_runs_in_flight_on_one_runner")
    # ---- nested pause identity
    if case["nest"] and pausing:
        _nested_identity(case, topo, values0, args, labels)
    if two_on_path:
        labels.add("two_pausing_on_one_path")
    if concurrent_sibling:
        labels.add("concurrent_sibling_with_consumer")
    if any(n.get("emit") for n in inter):
        labels.add("interrupt_emits")
    labels.add(f"pausing:{len(pausing)}")
    ev.case(case, two_on_path or concurrent_sibling, sorted(labels))


def _nested_identity(case, topo, values0, args, labels):
    """Wrap an interval containing the first pausing interrupt (in dependency order) under explicit wrapper names."""
    pausing = [n for n in topo if n["k"] == "interrupt" and n["mode"] == "pause" and args.get(n["name"]) is not None]
    anc = {n["name"]: ref.ancestors_closure(topo, {n["name"]}) - {n["name"]} for n in topo}
    firsts = [n for n in pausing if not any(a in {x["name"] for x in pausing} for a in anc[n["name"]])]
    if len(firsts) != 1:
        return  # several independent first interrupts: which one pauses first is not constrained
    target = firsts[0]
    idx = next(i for i, n in enumerate(topo) if n["name"] == target["name"])
    d = case["nest_draw"]
    a = max(0, idx - d[0] % 3)
    b = min(len(topo), idx + 1 + d[1] % 3)
    inner = _materialise(topo[a:b])
    names = ["stage", "step"]
    path = []
    gspec = {"nodes": inner, "name": "innermost_graph"}
    wrapper = {"k": "graph", "name": names[0], "graph": gspec}
    path.append(names[0])
    if case["nest"]["depth"] == 2:
        wrapper = {"k": "graph", "name": names[1], "graph": {"nodes": [wrapper], "name": "middle_graph"}}
        path.insert(0, names[1])
    after = _materialise(topo[b:])
    if d[2] % 2 == 1:
        # the wrapper(s) expose the interrupt's outputs under OTHER names (with_outputs); the pause still names the interrupt's own
        # output names: that is what the node inside is called and answers to
        ren = {o: o + "_w" for o in target["outs"]}
        inner_most = wrapper if case["nest"]["depth"] == 1 else wrapper["graph"]["nodes"][0]
        inner_most["renames"] = [{"kind": "outputs", "map": dict(ren)}]
        if case["nest"]["depth"] == 2:
            ren2 = {v: v + "2" for v in ren.values()}
            wrapper["renames"] = [{"kind": "outputs", "map": dict(ren2)}]
            ren = {o: ren2[v] for o, v in ren.items()}
        after = [{**n, "params": [ren.get(q, q) for q in n.get("params", [])], "wait_for": [ren.get(q, q) for q in n.get("wait_for", [])]} if n.get("params") or n.get("wait_for") else n for n in after]
        after = [({k_: v_ for k_, v_ in n.items() if k_ != "wait_for" or v_}) for n in after]
        labels.add("nested_wrapper_renames_the_interrupt_outputs")
    outer = _materialise(topo[:a]) + [wrapper] + after
    # other pausing interrupts outside the wrapper are auto-answered so the nested one is reached
    outer = [({**n, "mode": "auto"} if n.get("k") == "interrupt" else n) for n in outer]
    ctx = Ctx()
    try:
        g = make_graph(ctx, {"nodes": outer}, "sync")
    except Exception:  # noqa: BLE001
        return
    out = run_async(g, values0)
    inner_pausing = [n for n in topo[a:b] if n["k"] == "interrupt" and n["mode"] == "pause"]
    if out.status != "paused":
        raise Violation("c14.nested_not_paused", f"nested form gave {out.brief()} instead of pausing at {'/'.join(path + [target['name']])}")
    p = out.pause
    want_name = "/".join(path + [target["name"]])
    if p.node_name != want_name:
        raise Violation("c14.nested_node_name", f"pause.node_name={p.node_name!r}, expected the path {want_name!r}")
    want_key = ".".join(path + [target["outs"][0]])
    if p.response_key != want_key:
        raise Violation("c14.nested_response_key", f"pause.response_key={p.response_key!r}, expected {want_key!r}")
    if p.response_keys != {o: ".".join(path + [o]) for o in target["outs"]}:
        raise Violation("c14.nested_response_keys", f"pause.response_keys={p.response_keys}")
    if target["params"] and not (p.value == args[target["name"]][0]):
        raise Violation("c14.nested_pause_value", f"pause.value={J(p.value)} expected {J(args[target['name']][0])}")
    labels.add(f"nested_identity_depth{case['nest']['depth']}")
