"""C18 - run isolation: no state leaks between runs; caller-owned objects untouched.  DESIGN.md section 4/C18.

Stateful: a RuleBasedStateMachine keeps a pool of graph OBJECTS (built once, run many times) whose node functions
mutate the mutable objects they receive as signature defaults, and whose bindings are mutable objects.  Every run is
compared with the first run of a pristine twin built from the same IR.
"""
from __future__ import annotations

import copy

from hypothesis import strategies as st
from hypothesis.stateful import RuleBasedStateMachine, initialize, rule

from .. import gen, ref
from ..build import Ctx, J, freeze, make_graph
from ..core import Violation
from ..gen import prob
from ..observe import Outcome, run_async, run_sync
from ..sched import run_many_scheduled
from ..observe import arun as _arun

ID = "C18"
LEVEL = "exploration"
BUDGET = {"quick": 1200, "thorough": 10000}
STEPS = {"quick": 14, "thorough": 30}
SHARDS = {"quick": 16, "thorough": 16}
RULE = (
    "Hypothesis rule-based state machine over a pool of 1-3 graph objects built once from generated acyclic programs (3-6 nodes, "
    "optionally with a nested interval, inner/outer bindings of mutable objects, a graph-level select that excludes the nested "
    "node's outputs) whose functions mutate the list / dict / tuple-holding-a-list / nested-list objects they receive as signature "
    "defaults. Rules: run on the shared SyncRunner, on a fresh SyncRunner, on the shared AsyncRunner, asyncio.gather of 2-3 runs "
    "(same and different graphs, own max_concurrency each) under a drawn schedule of the harness scheduler, run with a caller "
    "dict plus keyword inputs. After every run: its normal form (status, values, invocations with frozen arguments) equals the "
    "first run of a pristine twin built from the same IR; every function's __defaults__ still deep-equals its creation snapshot; "
    "the caller's dict has the same keys and the identical value objects; every argument resolved from a binding IS the bound "
    "object; each concurrent run respects its own max_concurrency. Non-trivial = a second run of a graph after a mutating first "
    "run, or a gather of >=2 runs."
)
ASSUMPTIONS = ["bound objects are shared by design, so generated functions never mutate them", "caller-supplied values are immutable terms (only defaults are mutated)"]

MUT_KINDS = ["list", "dict", "tuple_list", "nested_list"]
UNP = lambda: None  # noqa: E731 - a run-time value that cannot be pickled (same object for every run and every twin)


@st.composite
def _program(draw):
    topo = draw(gen.g1_nodes(3, 6, default_on_edge=0.0))
    prod = ref.producers(topo)
    pure = list(dict.fromkeys(p for n in topo for p in n["params"] if p not in prod))
    # mutable signature defaults on a drawn subset of pure inputs (all consumers share the default: all-or-none rule)
    mut_params = {}
    for p in pure:
        if prob(draw, 0.45):
            mut_params[p] = draw(st.sampled_from(MUT_KINDS))
    for n in topo:
        n["defaults"] = {p: ({"__mut__": mut_params[p]} if p in mut_params else v) for p, v in n.get("defaults", {}).items()}
        for p in n["params"]:
            if p in mut_params:
                n["defaults"][p] = {"__mut__": mut_params[p]}
        n["params"] = [p for p in n["params"] if p not in n["defaults"]] + [p for p in n["params"] if p in n["defaults"]]
        n["mutates"] = [p for p in n["params"] if p in mut_params]
    # ... and, sometimes, on a name that an upstream node PRODUCES: its consumers may start early on (a private copy of) the default
    # and run again when the value arrives
    produced_used = sorted({p for n in topo for p in n["params"] if p in prod})
    if produced_used and prob(draw, 0.3):
        pe = draw(st.sampled_from(produced_used))
        kind_e = draw(st.sampled_from(MUT_KINDS))
        for n in topo:
            if pe in n["params"]:
                n["defaults"][pe] = {"__mut__": kind_e}
                n["params"] = [q for q in n["params"] if q not in n["defaults"]] + [q for q in n["params"] if q in n["defaults"]]
                n["mutates"] = list(n["mutates"]) + [pe]
    # consistency: equal defaults for a shared parameter must compare equal at construction: fresh [] == [] holds
    bindable = [p for p in pure if p not in mut_params]
    bind = {p: "obj" for p in draw(gen.subset(bindable, 0.4))}
    keep_bound_defaults = prob(draw, 0.4)  # (flat programs only, decided below: an OUTER binding on a defaulted parameter is legal)
    saved_defaults = [dict(n["defaults"]) for n in topo]
    for n in topo:  # a bound parameter carries no signature default here (an inner binding next to an outside default is rejected by design)
        n["defaults"] = {p: v for p, v in n["defaults"].items() if p not in bind}
        n["params"] = [p for p in n["params"] if p not in n["defaults"]] + [p for p in n["params"] if p in n["defaults"]]
    nested = None
    if prob(draw, 0.5):
        nested = {"a": draw(st.integers(0, len(topo) - 1)), "len": draw(st.integers(1, 3)), "inner_bind": prob(draw, 0.7), "select_out": draw(st.booleans())}
        # (several inner nodes may mutate the same defaulted input: each gets its own copy, as in the flat graph - F29, fixed)
    flat_select = None
    if nested is None and keep_bound_defaults:
        # flat program: bound parameters keep their (immutable) signature default - the binding wins - and a graph-level selection
        # leaves some nodes outside (a selection does not stop them from running; they still get the bound OBJECT)
        for n, d0 in zip(topo, saved_defaults):
            n["defaults"] = {**{p: v for p, v in d0.items() if p in bind and not (isinstance(v, dict) and "__mut__" in v)}, **n["defaults"]}
            n["params"] = [p for p in n["params"] if p not in n["defaults"]] + [p for p in n["params"] if p in n["defaults"]]
        outs_all = [o for n in topo for o in n["outs"]]
        if len(outs_all) >= 2:
            flat_select = draw(st.lists(st.sampled_from(outs_all), min_size=1, max_size=max(1, len(outs_all) - 1), unique=True))
    if nested is not None and prob(draw, 0.4):
        # the nested graph is a MAPPING node over a plain input of its own (two items per run; every item starts from a pristine
        # default - F29, fixed); a mutable-default input that only its own nodes take may be renamed on the wrapper
        nested["map"] = True
        nested["inner_bind"] = False
        nested["rename_default"] = draw(st.booleans())
        first = topo[nested["a"]]
        first["params"] = ["mp_in"] + [q for q in first["params"]]
        if not any(q.startswith("md_own") for q in first["params"]):
            first["params"] = first["params"] + ["md_own"]
            first["defaults"]["md_own"] = {"__mut__": draw(st.sampled_from(MUT_KINDS))}
            first["mutates"] = list(first.get("mutates", [])) + ["md_own"]
    if prob(draw, 0.25):
        # an accumulator: a node that takes a name with a mutable signature default, mutates the object in place and PRODUCES that
        # same name (`add(item, history=[]) -> history`); nobody else takes or produces the name
        acc = topo[draw(st.integers(0, len(topo) - 1))]
        acc["params"] = list(acc["params"]) + ["md_self"]
        acc["defaults"]["md_self"] = {"__mut__": draw(st.sampled_from(MUT_KINDS))}
        acc["mutates"] = list(acc.get("mutates", [])) + ["md_self"]
        acc["outs"] = list(acc["outs"]) + ["md_self"]
    if prob(draw, 0.3):
        # nodes that mutate a default are CACHEABLE and also take an input that cannot be pickled (a callable): no cache key can be
        # formed, so they run every time - on runners that carry a cache - exactly as without one
        for n in topo:
            if n["mutates"]:
                n["params"] = ["unp"] + n["params"]
                n["cache"] = True
    return {"topo": topo, "bind": bind, "nested": nested, "order": draw(st.permutations(list(range(len(topo))))), "flat_select": flat_select}


class Prog:
    """One pool member: the long-lived graph object plus what is needed to build pristine twins."""

    def __init__(self, spec, idx):
        self.spec = spec
        self.idx = idx
        self.ctx = Ctx()
        self.ctx.keep_raw = True
        self.bound_objs = {p: {"bound": p, "idx": idx, "payload": []} for p in spec["bind"]}  # mutable, never mutated by nodes
        self.graph = self._build(self.ctx, self.bound_objs)
        self.defaults_snapshot = self._defaults(self.ctx)
        self.runs = 0

    def _build(self, ctx, bound_objs):
        spec = self.spec
        topo = spec["topo"]
        nodes = [topo[i] for i in spec["order"]]
        inner_bound = {}
        select = None
        if spec["nested"]:
            a = spec["nested"]["a"]
            b = min(len(topo), a + spec["nested"]["len"])
            S = topo[a:b]
            sprod = {o for x in S for o in x["outs"]}
            s_inputs = {p for x in S for p in x["params"] if p not in sprod}
            wrapper = {"k": "graph", "name": "sub", "graph": {"nodes": [dict(x) for x in S], "name": "sub"}}
            self.mapped_param = None
            if spec["nested"].get("map"):
                allprod = {o for x in topo for o in x["outs"]}
                dflt = {q for x in topo for q in x.get("defaults", {})}
                cands = ["mp_in"] if "mp_in" in s_inputs else []
                if cands:
                    self.mapped_param = cands[0]
                    wrapper["map"] = {"params": [cands[0]], "mode": "zip", "error_handling": "raise", "before_renames": True}
                    if spec["nested"].get("rename_default"):
                        outside = {q for x in topo[:a] + topo[b:] for q in x["params"]}
                        own_mut = sorted((q for x in S for q in x.get("mutates", []) if q not in outside), key=lambda q: (q != "md_own", q))
                        if own_mut:
                            wrapper["renames"] = [{"kind": "inputs", "map": {own_mut[0]: own_mut[0] + "_r"}}]
            nodes = [dict(x) for x in topo[:a]] + [wrapper] + [dict(x) for x in topo[b:]]
            if spec["nested"]["inner_bind"]:
                inner_bound = {p: bound_objs[p] for p in bound_objs if p in s_inputs}
                self.inner_bound_names = set(inner_bound)
            if spec["nested"]["select_out"]:
                outside = [o for x in topo[:a] + topo[b:] for o in x["outs"]]
                if outside:
                    select = outside
        g = make_graph(ctx, {"nodes": [n for n in nodes if n["k"] != "graph"] + [n for n in nodes if n["k"] == "graph"]}, "sync")
        if inner_bound:
            # rebuild with the inner graph bound: bind real objects (not JSON terms)
            from hypergraph import Graph

            new_nodes = []
            for n in g.nodes.values():
                if n.name == "sub":
                    new_nodes.append(n.graph.bind(**inner_bound).as_node(name="sub"))
                else:
                    new_nodes.append(n)
            g = Graph(new_nodes)
        outer = {p: o for p, o in bound_objs.items() if p not in inner_bound}
        if outer:
            g = g.bind(**outer)
        if select is None and spec.get("flat_select") and not spec["nested"]:
            select = list(spec["flat_select"])
        if select:
            g = g.select(*select)
        return g

    @staticmethod
    def _defaults(ctx):
        return {key: copy.deepcopy(getattr(fn, "__defaults__", None)) for key, fn in ctx.funcs.items()}

    def values(self, variant):
        g = self.graph
        mp = getattr(self, "mapped_param", None)
        return {p: (UNP if p == "unp" else ([("in", p, variant), ("in", p, variant + 1)] if p == mp else ("in", p, variant))) for p in g.inputs.required}

    def twin_form(self, variant, kind, values=None, override=()):
        """First run of a freshly built copy of the same program (optionally with explicit values; `override` names bound
        parameters that are ALSO supplied at run time with an equal-but-distinct object)."""
        ctx = Ctx()
        bound = {p: {"bound": p, "idx": self.idx, "payload": []} for p in self.spec["bind"]}
        g = self._build(ctx, bound)
        vals = dict(values) if values is not None else self.values(variant)
        for p in override:
            vals[p] = copy.deepcopy(bound[p])
        out = (run_sync if kind == "sync" else run_async)(g, vals)
        return _form(out, ctx)


def _form(out, ctx):
    err = None if out.error is None else type(out.error).__name__
    return (out.status, repr(sorted((k, repr(freeze(v))) for k, v in (out.values or {}).items())), err, tuple(sorted(repr(x) for x in ctx.log)))


class State:
    def __init__(self):
        from hypergraph import AsyncRunner, SyncRunner

        self.progs: list[Prog] = []
        self.trace: list = []
        from hypergraph.cache import InMemoryCache

        self.sync = SyncRunner(cache=InMemoryCache())  # runners carry a cache; only nodes that cannot form a key are cacheable
        self.asyn = AsyncRunner(cache=InMemoryCache())
        self.second_runs = 0
        self.gathers = 0

    def apply(self, op):
        self.trace.append(op)
        getattr(self, "op_" + op["op"])(op)
        self.check_defaults(op)

    def check_defaults(self, op):
        for pr in self.progs:
            now = Prog._defaults(pr.ctx)
            if now != pr.defaults_snapshot:
                diff = {k: (pr.defaults_snapshot[k], now[k]) for k in now if now[k] != pr.defaults_snapshot[k]}
                raise Violation("c18.defaults_mutated", f"after {J(op)}: function __defaults__ of program {pr.idx} changed: (before, after) {diff}", where="__defaults__")

    def op_add(self, op):
        if len(self.progs) < 3:
            self.progs.append(Prog(op["spec"], len(self.progs)))

    def _pick(self, i):
        return self.progs[i % len(self.progs)] if self.progs else None

    def _after_run(self, pr, out, variant, kind, tag, caller=None, caller_snapshot=None, provided=None, override=()):
        want = pr.twin_form(variant, kind, override=override)
        got = _form(out, pr.ctx)
        if got != want:
            what = "status" if got[0] != want[0] else ("values" if got[1] != want[1] else "invocations")
            raise Violation("c18.run_depends_on_history", f"[{tag}] run #{pr.runs + 1} of program {pr.idx} gave {str(got)[:700]}; the first run of a pristine copy gives {str(want)[:700]}",
                            what=what, nested=bool(pr.spec["nested"]))
        # bound objects arrive by identity
        topo = pr.spec["topo"]
        for fid, raw in pr.ctx.raw_args:
            n = next((x for x in topo if x["name"] == fid), None)
            if n is None:
                continue
            for pos, pname in enumerate(n["params"]):
                if pname in override and caller is not None and raw[pos] is not caller[pname]:
                    raise Violation("c18.runtime_value_replaced", f"[{tag}] node {fid} did not receive the caller's object for {pname!r} (an object equal to, but distinct from, the one bound inside the nested graph): "
                                    f"it received {'the bound object' if raw[pos] is pr.bound_objs[pname] else 'another object'}", nested=bool(pr.spec["nested"]))
                if pname in pr.bound_objs and pname not in (provided if provided is not None else (caller or {})):
                    if raw[pos] is not pr.bound_objs[pname]:
                        raise Violation("c18.bound_value_copied", f"[{tag}] node {fid} received {type(raw[pos]).__name__} for bound parameter {pname!r} which is not the bound object itself (equal={raw[pos] == pr.bound_objs[pname]})",
                                        nested=bool(pr.spec["nested"]))
        if caller is not None:
            if set(caller) != set(caller_snapshot) or any(caller[k] is not caller_snapshot[k] for k in caller_snapshot):
                raise Violation("c18.caller_dict_modified", f"[{tag}] the caller's input mapping changed: before keys {sorted(caller_snapshot)}, after {sorted(caller)}")
        if pr.runs >= 1:
            self.second_runs += 1
        pr.runs += 1

    def op_run(self, op):
        pr = self._pick(op["p"])
        if pr is None:
            return
        kind = op["kind"]
        vals = pr.values(op["variant"])
        override = ()
        if op.get("override_equal") and pr.bound_objs:
            # a run-time value that EQUALS the bound object but is another object: the caller's object is what the node gets
            names = sorted(pr.bound_objs)
            inner = sorted(getattr(pr, "inner_bound_names", ()))  # prefer a name bound INSIDE the nested graph
            names = inner or names
            override = (names[op["override_equal"] % len(names)],)
            for p_ in override:
                vals[p_] = copy.deepcopy(pr.bound_objs[p_])
        snap = dict(vals)
        pr.ctx.reset()
        from hypergraph import SyncRunner

        if kind == "sync_shared":
            out = run_sync(pr.graph, vals, runner=self.sync)
        elif kind == "sync_fresh":
            from hypergraph.cache import InMemoryCache

            out = run_sync(pr.graph, vals, runner=SyncRunner(cache=InMemoryCache()))
        else:
            out = run_async(pr.graph, vals, runner=self.asyn)
        self._after_run(pr, out, op["variant"], "sync" if kind.startswith("sync") else "async", f"{kind} variant {op['variant']}" + (f" override {override}" if override else ""),
                        caller=vals, caller_snapshot=snap, override=override)

    def op_map(self, op):
        """runner.map over one required input (two items), with or without clone: every item equals the first run of a pristine
        copy on that item, and bound objects still arrive by identity (bindings are shared intentionally, never copied)."""
        pr = self._pick(op["p"])
        if pr is None:
            return
        base = pr.values(op["variant"])
        names = sorted(n_ for n_ in base if n_ != "unp" and n_ != getattr(pr, "mapped_param", None))
        if not names:
            return
        mapped = names[op["k"] % len(names)]
        items = [("in", mapped, op["variant"]), ("in", mapped, op["variant"] + 2)]
        vals = {**base, mapped: list(items)}
        pr.ctx.reset()
        import asyncio

        kw = {"map_over": mapped, "clone": bool(op["clone"])}
        try:
            res = _arun(self.asyn.map(pr.graph, vals, **kw)) if op["async"] else self.sync.map(pr.graph, vals, **kw)
        except Exception as e:  # noqa: BLE001
            raise Violation("c18.map_raised", f"[map over {mapped} clone={op['clone']}] raised {type(e).__name__}: {str(e)[:200]}") from None
        tag = f"{'async' if op['async'] else 'sync'} map over {mapped} clone={bool(op['clone'])} variant {op['variant']}"
        for it, r in zip(items, res):
            want = pr.twin_form(op["variant"], "async" if op["async"] else "sync", values={**base, mapped: it})
            got = (r.status.value, repr(sorted((k, repr(freeze(v))) for k, v in (r.values or {}).items())), None if r.error is None else type(r.error).__name__)
            if got != want[:3]:
                raise Violation("c18.run_depends_on_history", f"[{tag}] item {it} gave {str(got)[:500]}; the first run of a pristine copy on that item gives {str(want[:3])[:500]}", what="map_item", nested=bool(pr.spec["nested"]))
        topo = pr.spec["topo"]
        for fid, raw in pr.ctx.raw_args:
            n = next((x for x in topo if x["name"] == fid), None)
            if n is None:
                continue
            for pos, pname in enumerate(n["params"]):
                if pname in pr.bound_objs and pname not in vals and raw[pos] is not pr.bound_objs[pname]:
                    raise Violation("c18.bound_value_copied", f"[{tag}] node {fid} received {type(raw[pos]).__name__} for bound parameter {pname!r} which is not the bound object itself (equal={raw[pos] == pr.bound_objs[pname]})",
                                    nested=bool(pr.spec["nested"]))
        pr.runs += 1
        self.second_runs += 1

    def op_run_kwargs(self, op):
        """values dict + keyword inputs: the dict the caller owns must not be written to."""
        pr = self._pick(op["p"])
        if pr is None:
            return
        vals = pr.values(op["variant"])
        names = sorted(n_ for n_ in vals if n_ != "unp")
        if not names:
            return
        kwname = names[op["k"] % len(names)]
        base = {k: v for k, v in vals.items() if k != kwname}
        snap = dict(base)
        pr.ctx.reset()
        import asyncio

        from hypergraph import MissingInputError  # noqa: F401

        try:
            if op["async"]:
                res = _arun(self.asyn.run(pr.graph, base, **{kwname: vals[kwname]}))
            else:
                res = self.sync.run(pr.graph, base, **{kwname: vals[kwname]})
            out = Outcome(res.status.value, dict(res.values), res.error, res.pause, res)
        except ValueError as e:
            if "reserved runner options" in str(e):
                return
            out = Outcome("raised", None, e)
        except Exception as e:  # noqa: BLE001
            out = Outcome("raised", None, e)
        self._after_run(pr, out, op["variant"], "async" if op["async"] else "sync", f"run(values, **{{{kwname}}}) variant {op['variant']}", caller=base, caller_snapshot=snap, provided=set(vals))

    def op_after_aborted_limited_run(self, op):
        """A run with max_concurrency=1 that ends abnormally (a node raises / an interrupt pauses), then - awaited from the SAME task,
        on a fresh runner - an unlimited run of two nodes of one superstep that need each other (the first waits for an event the
        second sets).  Whatever budget the first run installed must be gone: the second run completes."""
        import asyncio

        from hypergraph import AsyncRunner, FunctionNode, Graph, InterruptNode

        how = op["how"]

        def boom(x):
            raise RuntimeError("boom")

        first_nodes = [FunctionNode(boom, name="boom", output_name="b")] if how == "fail" else [InterruptNode(lambda x: None, name="ask", output_name="b")]
        g1 = Graph(first_nodes + [FunctionNode(lambda b: b, name="after", output_name="c")])

        async def scenario():
            try:
                r1 = await (self.asyn if op["shared"] else AsyncRunner()).run(g1, {"x": 1}, max_concurrency=1, error_handling="raise")
                st1 = r1.status.value
            except RuntimeError:
                st1 = "raised"
            ev_ = asyncio.Event()

            async def waits(x):
                await ev_.wait()
                return ("waited", x)

            async def sets(x):
                ev_.set()
                return ("set", x)

            pair = [FunctionNode(waits, name="waits", output_name="w"), FunctionNode(sets, name="sets", output_name="s")]
            g2 = Graph(pair if op["order"] == 0 else pair[::-1])
            r2 = await AsyncRunner().run(g2, {"x": 2})
            return st1, r2.status.value, dict(r2.values)

        tag = f"unlimited run after a max_concurrency=1 run that {'raised' if how == 'fail' else 'paused'} in the same task"
        try:
            st1, st2, vals2 = _arun(scenario())
        except Exception as e:  # noqa: BLE001
            raise Violation("c18.limiter_leaked", f"[{tag}] the second run did not finish: {type(e).__name__}: {str(e)[:200]}", how=how, deadlock=type(e).__name__ == "Deadlock") from None
        if st1 != ("raised" if how == "fail" else "paused"):
            raise Violation("c18.limiter_leaked", f"[{tag}] the first run ended {st1!r}", how=how, deadlock=False)
        if st2 != "completed" or vals2 != {"w": ("waited", 2), "s": ("set", 2)}:
            raise Violation("c18.limiter_leaked", f"[{tag}] the second run gave {st2} {vals2}", how=how, deadlock=False)

    def op_gather(self, op):
        prs = [self._pick(i) for i in op["ps"]]
        prs = [p for p in prs if p is not None]
        if len(prs) < 2:
            return
        # a graph object may take part twice: give the duplicate its own context by building a sibling object is NOT wanted;
        # the same object runs concurrently with itself, so call logs of duplicates are merged and compared as a multiset
        items = []
        uniq = []
        for j, pr in enumerate(prs):
            if pr in uniq:
                continue
            uniq.append(pr)
        for j, pr in enumerate(uniq):
            pr.ctx.reset()
            k = op["ks"][j % len(op["ks"])]
            items.append({"ctx": pr.ctx, "graph": _async_twin(pr), "values": pr.values(op["variants"][j % len(op["variants"])]), "runner": self.asyn,
                          "kw": {"max_concurrency": k} if k else {}})
        outs, sched = run_many_scheduled(items, op["sched"])
        self.gathers += 1
        for j, (pr, out) in enumerate(zip(uniq, outs)):
            tag = f"gather[{j}] of {len(uniq)} runs"
            if out.status == "deadlock":
                raise Violation("c18.deadlock", f"[{tag}] {out.error}")
            k = op["ks"][j % len(op["ks"])]
            if k and items[j]["ctx"].peak > k:
                raise Violation("c18.limiter_leak", f"[{tag}] {items[j]['ctx'].peak} bodies of this run executed at once, its own max_concurrency is {k}")
            want = pr.twin_form(op["variants"][j % len(op["variants"])], "async")
            got = _form(out, items[j]["ctx"])
            if got != want:
                raise Violation("c18.concurrent_runs_interfere", f"[{tag}] gave {str(got)[:600]}; alone on a pristine copy: {str(want)[:600]}", what="values" if got[1] != want[1] else "other")
            pr.runs += 1


def _async_twin(pr):
    """The async flavour of the same long-lived program (built once per program, same defaults discipline)."""
    if not hasattr(pr, "_agraph"):
        spec = pr.spec
        # same ctx: call log and raw args are shared; functions are separate (async) objects with their own defaults
        old = pr.graph
        try:
            from ..build import make_graph as mg  # noqa: F401

            pr_async = Prog.__new__(Prog)
            pr_async.spec, pr_async.idx, pr_async.ctx, pr_async.bound_objs = spec, pr.idx, pr.ctx, pr.bound_objs
            pr._agraph = _build_flavour(pr_async, "async")
        finally:
            pr.graph = old
        pr.defaults_snapshot = Prog._defaults(pr.ctx)
    return pr._agraph


def _build_flavour(pr, flavour):
    import hgverif.props.c18 as me

    real = me.make_graph

    def mg(ctx, spec, fl="sync"):
        return real(ctx, spec, flavour)

    me.make_graph = mg
    try:
        return pr._build(pr.ctx, pr.bound_objs)
    finally:
        me.make_graph = real


def machine(tier, ev, holder, guarded):
    class Isolation(RuleBasedStateMachine):
        def __init__(self):
            super().__init__()
            self.s = State()
            holder["case"] = self.s.trace

        def _do(self, op):
            holder["case"] = self.s.trace
            guarded(self.s.trace, fn=lambda: self.s.apply(op))

        @initialize(spec=_program())
        def init(self, spec):
            self._do({"op": "add", "spec": spec})

        @rule(spec=_program())
        def add(self, spec):
            self._do({"op": "add", "spec": spec})

        @rule(p=st.integers(0, 5), kind=st.sampled_from(["sync_shared", "sync_shared", "sync_fresh", "async_shared"]), variant=st.integers(0, 1),
              override_equal=st.sampled_from([0, 0, 0, 1, 2, 3]))
        def run(self, p, kind, variant, override_equal):
            self._do({"op": "run", "p": p, "kind": kind, "variant": variant, "override_equal": override_equal})

        @rule(p=st.integers(0, 5), variant=st.integers(0, 1), k=st.integers(0, 5), clone=st.booleans(), a=st.booleans())
        def map(self, p, variant, k, clone, a):
            self._do({"op": "map", "p": p, "variant": variant, "k": k, "clone": clone, "async": a})

        @rule(p=st.integers(0, 5), variant=st.integers(0, 1), k=st.integers(0, 5), a=st.booleans())
        def run_kwargs(self, p, variant, k, a):
            self._do({"op": "run_kwargs", "p": p, "variant": variant, "k": k, "async": a})

        @rule(ps=st.lists(st.integers(0, 5), min_size=2, max_size=3), variants=st.lists(st.integers(0, 1), min_size=1, max_size=3),
              ks=st.lists(st.sampled_from([None, 1, 2]), min_size=1, max_size=3), sched=st.lists(st.integers(0, 7), max_size=40))
        def gather(self, ps, variants, ks, sched):
            self._do({"op": "gather", "ps": ps, "variants": variants, "ks": ks, "sched": sched})

        @rule(how=st.sampled_from(["fail", "pause"]), shared=st.booleans(), order=st.integers(0, 1))
        def after_aborted_limited_run(self, how, shared, order):
            self._do({"op": "after_aborted_limited_run", "how": how, "shared": shared, "order": order})

        def teardown(self):
            if self.s.trace and not holder.get("violation"):
                labels = {"op:" + o["op"] for o in self.s.trace}
                if any(pr.spec["nested"] for pr in self.s.progs):
                    labels.add("nested_program")
                ev.case(self.s.trace, self.s.second_runs > 0 or self.s.gathers > 0, sorted(labels))

    return Isolation


def check_case(case, ev):
    s = State()
    for op in case:
        s.apply(op)
    ev.case(case, s.second_runs > 0 or s.gathers > 0, sorted({"op:" + o["op"] for o in case}))
