"""C12 - events of every terminated run form a complete, well-nested span tree.  DESIGN.md section 4/C12."""
from __future__ import annotations

from hypothesis import strategies as st

from ..gen import prob

from .. import gen
from ..core import Violation
from ..observe import AsyncRecorder, Recorder
from ..rich import execute
from ..trace import check_span_tree

ID = "C12"
LEVEL = "exploration"
BUDGET = {"quick": 6400, "thorough": 40000}
SHARDS = {"quick": 16, "thorough": 16}
RULE = (
    "Hypothesis-generated programs: DAGs flat / with an interval nested to depth 1-3 / with 2-3 sibling nested graphs, control-flow "
    "programs (gates, cycles, signals), structured loops (flat and nested); 0-2 failing nodes (also with message-less exceptions), "
    "cached nodes with a second run on the same runner (cache hits), run / runner.map / mapping graph node, both error modes, "
    "select + on_missing, SyncRunner / AsyncRunner / AsyncRunner under the harness scheduler (processors that really suspend, "
    "concurrent spans interleave). Oracle: span-tree checker over the recorded stream of every top-level call: first = parentless "
    "RunStart, last = its RunEnd with the status the caller observed, one start/end per run and matching RunResult status per "
    "run_id, every NodeStart closed once by NodeEnd/NodeError of the same span/run/parent, children closed before parents, nested "
    "runs parented to an open node that wraps that graph (map items to the map span), CacheHit inside its node and followed by "
    "NodeEnd(cached), RouteDecision while its gate is open, nothing left open, shutdown exactly once; a rejected call emits "
    "nothing. Non-trivial = >=2 levels of runs, or a failing node with a concurrently open sibling span."
)
ASSUMPTIONS = ["PAUSED runs are outside the statement (spans stay open by design)", "sibling spans need not obey stack discipline"]


def _one_shot(reg, runner_kind, when):
    from hypergraph.events import AsyncEventProcessor, EventProcessor
    from hypergraph.events.types import RunEndEvent

    def leave(self):
        for j, q in enumerate(reg):
            if q is self:
                del reg[j]
                break

    class OneShot(EventProcessor):
        def on_event(self, event):
            if when == "run_end" and isinstance(event, RunEndEvent):
                leave(self)

        def shutdown(self):
            leave(self)

    class AsyncOneShot(AsyncEventProcessor):
        def on_event(self, event):
            OneShot.on_event(self, event)

        async def on_event_async(self, event):
            OneShot.on_event(self, event)

        def shutdown(self):
            leave(self)

        async def shutdown_async(self):
            leave(self)

    return OneShot() if runner_kind == "sync" else AsyncOneShot()


@st.composite
def _case(draw, tier):
    c = draw(gen.rich_case(tier))
    c["one_shot_first"] = draw(st.sampled_from([None, None, None, "shutdown", "run_end"]))
    # the cache backend's k-th lookup raises
    c["cache_get_fails"] = draw(st.integers(0, 3)) if prob(draw, 0.12) else None
    # a second observer that raises ONCE, at its k-th event (a transient sink fault), registered before or after the recorder:
    # what IT is given must be a complete tree too, and its shutdown runs once
    c["flaky_at"] = draw(st.integers(0, 30)) if prob(draw, 0.3) else None
    c["flaky_first"] = draw(st.booleans())
    # an unbounded async map over more items than the runner accepts without a limit: a rejected call
    if c["method"] in ("map", "mapnode") and c["runner"] != "sync" and prob(draw, 0.1):
        c.update({"huge_map": True, "mc": None, "nitems": 10001, "runs": 1, "omit_required": False, "bad_on_missing": False})
    return c


def strategy(tier):
    return _case(tier)


def check_case(case, ev):
    from hypergraph.events.types import NodeErrorEvent, NodeStartEvent, RunStartEvent

    recs = []
    flakies = []

    def _flaky(runner_kind, k):
        base = Recorder if runner_kind == "sync" else AsyncRecorder

        class Flaky(base):
            n = 0

            def _tick(self):
                self.n += 1
                if self.n - 1 == k:
                    raise RuntimeError(f"transient sink fault at event {k}")

            def on_event(self, event):
                self.events.append(event)
                self._tick()

            async def on_event_async(self, event):
                self.events.append(event)
                self._tick()

        return Flaky()

    def factory(i, runner_kind):
        r = Recorder() if runner_kind == "sync" else AsyncRecorder()
        recs.append(r)
        if case.get("flaky_at") is not None:
            f = _flaky(runner_kind, case["flaky_at"])
            flakies.append(f)
            return [f, r] if case.get("flaky_first") else [r, f]
        flakies.append(None)
        if case.get("one_shot_first"):
            # a one-shot observer registered BEFORE the recorder that takes itself out of the caller's list when it is shut down
            # (or when it sees the first RunEnd): the recorder behind it must still get every event and exactly one shutdown
            reg: list = []
            reg.extend([_one_shot(reg, runner_kind, case["one_shot_first"]), r])
            return reg
        return [r]

    try:
        calls, wrapper_graph, ctx = execute(case, factory)
    except Violation:
        raise
    except Exception as e:  # noqa: BLE001 - constructor rejections of a drawn program
        ev.discard("construct:" + type(e).__name__)
        return
    labels = {f"kind:{case['kind']}", f"method:{case['method']}", f"runner:{case['runner']}"}
    nontrivial = False
    for i, (call, rec) in enumerate(zip(calls, recs)):
        tag = f"call {i} {case['runner']} {call.kind} eh={case['error_handling']}"
        if call.outcome.status == "deadlock":
            raise Violation("c12.deadlock", f"[{tag}] {call.outcome.error}")
        if call.outcome.status == "raised" and type(call.outcome.error).__name__ == "MissingInputError" and case.get("omit_required") and case["method"] == "run":
            # the top-level call itself was rejected (a required input was withheld): nothing may be emitted
            labels.add("rejected_call")
            if rec.events or rec.shutdowns:
                raise Violation("c12.rejected_call_emitted", f"[{tag}] rejected with MissingInputError but {len(rec.events)} events / {rec.shutdowns} shutdowns were delivered")
            continue
        if case.get("bad_on_missing") and call.kind == "run":
            # an invalid on_missing value is a caller mistake: rejected before anything is emitted or executed
            labels.add("rejected_call:bad_on_missing")
            if call.outcome.status != "raised" or not isinstance(call.outcome.error, ValueError):
                raise Violation("c12.bad_on_missing_accepted", f"[{tag}] on_missing='raise' was not rejected with ValueError: {call.outcome.brief()}")
            if rec.events or rec.shutdowns or call.ctx_log:
                raise Violation("c12.rejected_call_emitted", f"[{tag}] rejected with {type(call.outcome.error).__name__} but {len(rec.events)} events / {rec.shutdowns} shutdowns / {len(call.ctx_log)} node invocations happened", why="bad_on_missing")
            continue
        if case.get("huge_map") and call.kind == "map" and call.outcome.status == "raised" and "Too many map tasks" in str(call.outcome.error):
            labels.add("rejected_call:too_many_map_tasks")
            if rec.events or rec.shutdowns or call.ctx_log:
                raise Violation("c12.rejected_call_emitted", f"[{tag}] the map over 10001 items without a limit was rejected with ValueError but {len(rec.events)} events / {rec.shutdowns} shutdowns were delivered "
                                f"({[type(e).__name__ for e in rec.events[:4]]})", why="too_many_map_tasks")
            continue
        if call.rejected and not rec.events and not rec.shutdowns:
            labels.add("rejected_call")  # validation refused the top-level call before anything was emitted
            continue
        if call.paused:
            continue
        check_span_tree(rec.events, rec.shutdowns, tag, observed_failed=call.observed_failed, result_status_by_run=call.status_by_run, wrapper_graph=wrapper_graph)
        fl = flakies[i] if i < len(flakies) else None
        if fl is not None:
            try:
                check_span_tree(fl.events, fl.shutdowns, tag + f" [observer that raised once at its event {case['flaky_at']}]", observed_failed=call.observed_failed,
                                result_status_by_run=call.status_by_run, wrapper_graph=wrapper_graph)
            except Violation as v:
                v.sig["flaky_observer"] = True
                raise
            if fl.n > case["flaky_at"]:
                labels.add("observer_raised_once")
        if case.get("cache_get_fails") is not None:
            labels.add("cache_lookup_fault")
        nruns = sum(1 for e in rec.events if isinstance(e, RunStartEvent))
        depth2 = any(isinstance(e, RunStartEvent) and e.parent_span_id is not None for e in rec.events)
        # failing node with a concurrently open sibling span
        open_now = 0
        concurrent_fail = False
        for e in rec.events:
            if isinstance(e, NodeStartEvent):
                open_now += 1
            elif isinstance(e, NodeErrorEvent):
                if open_now >= 2:
                    concurrent_fail = True
                open_now -= 1
            elif type(e).__name__ == "NodeEndEvent":
                open_now -= 1
        if depth2:
            labels.add("nested_runs")
        if concurrent_fail:
            labels.add("failure_with_open_sibling")
        if call.observed_failed:
            labels.add("failed_call")
        if any(type(e).__name__ == "CacheHitEvent" for e in rec.events):
            labels.add("cache_hit")
        nontrivial = nontrivial or depth2 or concurrent_fail
        ev.count("events_checked", len(rec.events))
    ev.case(case, nontrivial, sorted(labels))
