"""C19 - structural mistakes are rejected at graph construction, wherever they occur.  DESIGN.md section 4/C19."""
from __future__ import annotations

import collections.abc
import itertools
import typing
from typing import Any, Union, get_args, get_origin

from hypothesis import strategies as st

from .. import gen
from ..build import TYPES, Ctx, J, make_graph, make_node
from ..core import Violation
from ..gen import prob

ID = "C19"
LEVEL = "exploration"
BUDGET = {"quick": 8000, "thorough": 60000}
SHARDS = {"quick": 16, "thorough": 16}
RULE = (
    "Domain A (flaw injection): Hypothesis-generated valid graphs (gate-free and control-flow programs, optionally with the flaw "
    "site inside a nested graph) x ONE flaw from the catalogue at EVERY applicable position: unknown gate target in each slot of "
    "each gate (beside 0/1/2+ real targets), duplicate node name, node/output name that is a keyword / not an identifier / END, "
    "graph name containing '.' or '/', shared parameter with a default in one consumer only / with different values, wait_for "
    "on an unproduced name, explicit edge naming an unknown node or value, a second producer of a name placed so that it is "
    "neither an exclusive gate branch nor ordered, and in strict mode an incompatible or missing annotation on one edge (also on "
    "the second producer of a name shared by exclusive branches, also introduced through add_nodes). Oracle: the flawed graph "
    "raises GraphConfigError from the constructor / add_nodes (and nothing else), the graph without the flaw is accepted. "
    "Domain C (conflict rule): generated k-way gates (k=2..4, exclusive and multi-target) with chains and partial joins below the "
    "targets and two nodes producing one name; accepted iff the two are exclusively reachable from different targets of one "
    "exclusive gate or connected by a path (independent reachability computation). Domain B (type relation, EXHAUSTIVE in shard "
    "0): every ordered pair over the closed universe {int,bool,str,bytes,object,A,B(A),NoneType,Any} x {bare, list[.], dict[str,.], "
    "tuple[.,.], Sequence[.], bare list, unions of 2 in both spellings}: is_type_compatible equals the documented rules "
    "(identity, Any, unions, parameterised generics, subclassing); a drawn subset also end-to-end through a two-node strict "
    "graph. Non-trivial A = flaw not in the first node / first slot; B = verdict not decided by identity or Any."
)
ASSUMPTIONS = ["the rule list is read as closed: an incoming Any satisfies only a required Any (the documented Any rule is explicitly one-sided)", "no verdict is demanded for numeric-tower promotion, Ellipsis tuples or TypeVars (outside the documented constructors)"]


# ------------------------------------------------------------------------------------
# Domain B: type universe and the documented relation
# ------------------------------------------------------------------------------------


class A:
    pass


class B(A):
    pass


BASE = [int, bool, str, bytes, object, A, B, type(None)]


def universe():
    u = list(BASE) + [Any, list, dict, tuple]
    for t in BASE:
        u += [list[t], dict[str, t], collections.abc.Sequence[t]]
    for a, b in [(int, str), (str, int), (A, B), (B, A), (int, int), (object, int), (bool, int), (int, bool), (A, A), (B, B), (str, str), (bytes, str)]:
        u.append(tuple[a, b])
    u += [tuple[int], tuple[int, str, int], dict[int, str], dict[str, list], list[list], list[Any], dict[str, Any], tuple[Any, int], Union[int, Any]]
    pairs = [(int, str), (int, type(None)), (A, B), (B, str), (bool, bytes), (str, type(None)), (A, int), (B, type(None)), (object, str), (bytes, int), (bool, str), (A, type(None))]
    for a, b in pairs:
        u.append(Union[a, b])
        u.append(a | b)
    u += [list[int] | None, Union[list[str], int], list[A] | list[B], Union[dict[str, int], None]]
    # unions of THREE members (a wider producer union can still fit a narrower consumer union: several members may be covered by one)
    u += [Union[int, bool, None], Union[A, B, None], Union[int, str, None], Union[list[int], list[str], None], Union[B, bool, str], int | str | bytes]
    return u


def _is_union(t):
    import types

    return isinstance(t, types.UnionType) or get_origin(t) is Union


def compat(a, b):
    """Documented rules. Returns True / False / None (no verdict demanded)."""
    if a == b:
        return True
    if b is Any:
        return True
    if a is Any:
        # the documented rule is one-sided ("Any as required accepts anything"): read as a closed list, an incoming Any
        # satisfies only a required Any (handled above), directly or as a member of a required union
        if b is object:
            return None  # every value is an object; the rule list does not say which reading wins
        if not _is_union(b):
            return False
    if _is_union(a):
        vs = [compat(m, b) for m in get_args(a)]
        if any(v is False for v in vs):
            return False
        return None if any(v is None for v in vs) else True
    if _is_union(b):
        vs = [compat(a, m) for m in get_args(b)]
        if any(v is True for v in vs):
            return True
        return None if any(v is None for v in vs) else False
    oa, ob = get_origin(a) or a, get_origin(b) or b
    if isinstance(oa, type) and isinstance(ob, type):
        if not issubclass(oa, ob):
            return False
    elif oa != ob:
        return False
    aa, ba = get_args(a), get_args(b)
    if not aa or not ba:
        return True
    if len(aa) != len(ba):
        return False
    vs = [compat(x, y) for x, y in zip(aa, ba)]
    if any(v is False for v in vs):
        return False
    return None if any(v is None for v in vs) else True


def _end_to_end(a, b, want, holder):
    """Producer returning `a`, consumer taking `b`, Graph(strict_types=True) accepts iff the relation holds."""
    from hypergraph import FunctionNode, Graph, GraphConfigError

    def prod():
        return None

    def cons(v):
        return None

    prod.__annotations__ = {"return": a}
    cons.__annotations__ = {"v": b, "return": int}
    try:
        import warnings

        with warnings.catch_warnings():
            warnings.simplefilter("ignore")
            Graph([FunctionNode(prod, name="prod", output_name="v"), FunctionNode(cons, name="cons", output_name="w")], strict_types=True)
        accepted = True
    except GraphConfigError:
        accepted = False
    if a is type(None):
        return  # a None return annotation means "no value"; the node layer treats it as unannotated
    if accepted != want:
        holder["case"] = {"part": "B", "a": repr(a), "b": repr(b)}
        raise Violation("c19.strict_graph_vs_relation", f"Graph(strict_types=True) with producer -> {a!r} and consumer ({b!r}) was {'accepted' if accepted else 'rejected'}; the documented relation says {want}", want=want)


def exhaustive(tier, ev, holder):
    from hypergraph._typing import is_type_compatible

    u = universe()
    n = decided = nontrivial = 0
    for a, b in itertools.product(u, u):
        want = compat(a, b)
        n += 1
        if want is None:
            continue
        decided += 1
        got = is_type_compatible(a, b)
        if got != want:
            holder["case"] = {"part": "B", "a": repr(a), "b": repr(b)}
            raise Violation("c19.type_relation", f"is_type_compatible({a!r}, {b!r}) = {got}, documented rules give {want}", want=want)
        if (n % (1 if tier == "thorough" else 7)) == 0:
            _end_to_end(a, b, want, holder)
            ev.extra["type_pairs_end_to_end"] = ev.extra.get("type_pairs_end_to_end", 0) + 1
        if a != b and b is not Any:
            nontrivial += 1
            if nontrivial <= 4000:
                ev.nontrivial.add(f"B:{a!r}->{b!r}"[:60])
    ev.evaluations += n
    ev.extra["type_pairs_enumerated"] = n
    ev.extra["type_pairs_decided"] = decided
    ev.extra["type_pairs_nontrivial"] = nontrivial
    ev.extra["exhaustive"] = True
    ev.extra["exhaustive_scope"] = "Domain B: all ordered pairs of the type universe"
    if len(ev.samples) < 2:
        ev.samples.append({"part": "B", "pairs": [f"{a!r} -> {b!r}: {compat(a, b)}" for a, b in list(itertools.product(u[:12], u[10:14]))[:12]]})


# ------------------------------------------------------------------------------------
# Domain A: flaw catalogue
# ------------------------------------------------------------------------------------

FLAWS = ["unknown_gate_target", "duplicate_node_name", "bad_node_name", "bad_output_name", "bad_graph_name", "default_in_one_only", "different_defaults",
         "wait_for_unproduced", "edge_unknown_node", "edge_unknown_value", "unrelated_second_producer", "strict_incompatible", "strict_missing_annotation",
         "strict_second_producer_incompatible", "strict_ordering_edge_ok",
         "name_of_nested_graph_taken", "wait_for_hidden_inner_output"]


@st.composite
def _case(draw, tier):
    part = draw(st.sampled_from(["A", "A", "A", "C"]))
    if part == "C":
        k = draw(st.integers(2, 4))
        multi = prob(draw, 0.25)
        use_ifelse = k == 2 and draw(st.booleans())
        chains = [draw(st.integers(0, 2)) for _ in range(k)]
        joins = [sorted(draw(st.lists(st.integers(0, k - 1), min_size=2, max_size=min(3, k), unique=True))) for _ in range(draw(st.integers(0, 2)))]
        return {"part": "C", "k": k, "multi": multi, "ifelse": use_ifelse, "chains": chains, "joins": joins, "pick": draw(st.lists(st.integers(0, 30), min_size=2, max_size=2)), "pick3": draw(st.integers(0, 30)) if prob(draw, 0.4) else None, "second_family": draw(st.integers(0, 1)) if prob(draw, 0.3) else None,
                "contest": draw(st.integers(0, 40)) if prob(draw, 0.35) else None,
                "target_order": draw(st.permutations(list(range(k)))), "node_order": draw(st.lists(st.integers(0, 9), min_size=14, max_size=14))}
    flaw = draw(st.sampled_from(FLAWS))
    if flaw.startswith("strict") or flaw.startswith("edge_"):
        topo = draw(gen.g1_nodes(3, 6, p_edge=0.85, allow_no_out=False))
        for n in topo:
            n["outs"] = n["outs"][:1]  # single outputs so that a plain return annotation types them
        used = {o for n in topo for o in n["outs"]}
        for n in topo:
            n["params"] = [p for p in n["params"] if p in used or not p.startswith("o")]
        nodes = draw(gen.permuted(topo))
    elif draw(st.booleans()):
        nodes = draw(gen.permuted(draw(gen.g1_nodes(2, 6))))
    else:
        nodes, _ = draw(gen.g2_nodes(max_nodes=5, p_fail=0.0, p_cycle=0.2, p_signal=0.3, min_gates=1, max_gates=3))
    return {"part": "A", "nodes": nodes, "flaw": flaw, "nested": prob(draw, 0.3), "via_add_nodes": prob(draw, 0.3),
            "present": draw(st.sampled_from([None, None, "swap", "wrap"])) if flaw in PRESENTABLE else None,
            "none_default": draw(st.booleans()),  # the lonely default is `=None` (a default like any other)
            "bad_name": draw(st.sampled_from(["class", "for", "END", "not-an-identifier", "1abc", "has space"])), "sep": draw(st.sampled_from([".", "/"]))}


def strategy(tier):
    return _case(tier)


PRESENTABLE = ("default_in_one_only", "different_defaults", "strict_incompatible", "strict_missing_annotation")


def _present(nodes, mode):
    return gen.present(nodes, mode, warm=True)


def _construct(ctx, nodes, *, name=None, edges=None, strict=False, nested=False, via_add_nodes=False, present=None):
    """Build the graph (optionally with the node list inside a nested graph, optionally the last node through add_nodes)."""
    if present:
        nodes = _present(nodes, present)
    gspec = {"nodes": nodes, "name": name, "edges": edges, "strict": strict}
    if nested:
        inner = dict(gspec)
        inner["name"] = name or "inner"
        return make_graph(ctx, {"nodes": [{"k": "graph", "name": "wrap", "graph": inner}]}, "sync")
    if via_add_nodes and len(nodes) >= 2 and edges is None:
        from hypergraph import Graph

        objs = [make_node(ctx, n, "sync") for n in nodes]
        g = Graph(objs[:-1], name=name, strict_types=strict)
        return g.add_nodes(objs[-1])
    return make_graph(ctx, gspec, "sync")


def _expect_rejected(tag, fn):
    from hypergraph import GraphConfigError

    try:
        fn()
    except GraphConfigError:
        return
    except Exception as e:  # noqa: BLE001
        raise Violation("c19.wrong_exception", f"[{tag}] structural mistake raised {type(e).__module__}.{type(e).__name__}: {str(e)[:200]} instead of GraphConfigError", got=type(e).__name__, flaw=tag.split(" ")[0]) from None
    raise Violation("c19.flaw_accepted", f"[{tag}] graph with the mistake was accepted", flaw=tag.split(" ")[0])


def _expect_accepted(tag, fn):
    try:
        return fn()
    except Exception as e:  # noqa: BLE001
        raise Violation("c19.valid_rejected", f"[{tag}] graph without the mistake was rejected: {type(e).__name__}: {str(e)[:300]}", flaw=tag.split(" ")[0], error=type(e).__name__) from None


def _annotate(nodes):
    """Give every parameter / output of a gate-free program the annotation int (so strict mode accepts it)."""
    out = []
    for n in nodes:
        m = dict(n)
        ann = {p: "int" for p in n.get("params", [])}
        if n["k"] == "func" and len(n.get("outs", [])) == 1:
            ann["return"] = "int"
        m["ann"] = ann
        out.append(m)
    return out


def _part_a(case, ev):
    nodes = case["nodes"]
    flaw = case["flaw"]
    nested = case["nested"]
    via_add = case["via_add_nodes"] and not nested
    labels = {"part:A", "flaw:" + flaw}
    if nested:
        labels.add("inside_nested_graph")
    if via_add:
        labels.add("via_add_nodes")
    present = case.get("present")
    if present:
        labels.add("declared_via:" + present)
    ctx = Ctx(compact=True)
    # the unflawed graph must be constructible, else the draw is outside the domain
    try:
        _construct(ctx, nodes)
    except Exception as e:  # noqa: BLE001
        ev.discard("base_invalid:" + type(e).__name__)
        return
    if present:
        # the roundabout declaration of a VALID program must be accepted as well (the repaired graph is accepted)
        _expect_accepted(f"{flaw} baseline [declared via {present}]", lambda: _construct(Ctx(compact=True), nodes, nested=nested, present=present))
    sites = 0
    later_site = False
    gates = [i for i, n in enumerate(nodes) if n["k"] in ("ifelse", "route")]
    funcs = [i for i, n in enumerate(nodes) if n["k"] == "func"]

    def variant(i, **changes):
        out = [dict(n) for n in nodes]
        out[i].update(changes)
        return out

    def run(tag, flawed_nodes, pos, last=None, nested_off=False, **kw):
        nonlocal sites, later_site
        sites += 1
        later_site = later_site or pos > 0
        ctx2 = Ctx(compact=True)
        if nested_off:
            _expect_rejected(f"{flaw} {tag}", lambda: _construct(ctx2, flawed_nodes, nested=False, **kw))
            return
        if via_add and last is not None:
            # the node that completes the mistake is the one handed to add_nodes()
            flawed_nodes = [n for n in flawed_nodes if n["name"] != last] + [n for n in flawed_nodes if n["name"] == last]
        _expect_rejected(f"{flaw} {tag}" + (f" [declared via {present}]" if present else ""), lambda: _construct(ctx2, flawed_nodes, nested=nested, via_add_nodes=via_add and "edges" not in kw, present=present, **kw))

    if flaw == "unknown_gate_target":
        for gi in gates:
            g = nodes[gi]
            if g["k"] == "ifelse":
                for slot in ("t", "f"):
                    run(f"gate {g['name']} slot {slot}", variant(gi, **{slot: "no_such_node"}), gi + (slot == "f"))
            else:
                ts = list(g["targets"])
                for slot in range(len(ts) + 1):
                    new = ts[:slot] + ["no_such_node"] + ts[slot:]
                    fixed_table = [e for e in g["table"]]
                    run(f"gate {g['name']} slot {slot} of {len(new)}", variant(gi, targets=new, table=fixed_table), gi + slot)
                if g.get("fallback") is None and not g.get("multi"):
                    run(f"gate {g['name']} fallback", variant(gi, fallback="no_such_node"), gi + 1)
    elif flaw == "duplicate_node_name":
        for i in range(1, len(nodes)):
            if nodes[i]["k"] == "func" and nodes[0]["name"] != nodes[i]["name"]:
                run(f"node #{i} named like node #0", variant(i, name=nodes[0]["name"], fid=nodes[i]["name"]), i)
    elif flaw == "bad_node_name":
        for i in funcs:
            run(f"node #{i} named {case['bad_name']!r}", variant(i, name=case["bad_name"], fid=nodes[i]["name"]), i)
    elif flaw == "bad_output_name":
        bad = case["bad_name"] if case["bad_name"] != "END" else "while"
        for i in funcs:
            for j, o in enumerate(nodes[i]["outs"]):
                if any(o in m.get("params", []) + m.get("wait_for", []) for m in nodes):
                    continue  # renaming a consumed output also removes an edge; keep the flaw single
                outs = list(nodes[i]["outs"])
                outs[j] = bad
                run(f"output #{j} of node #{i} named {bad!r}", variant(i, outs=outs), i + j)
    elif flaw == "bad_graph_name":
        sites += 1
        ctx2 = Ctx(compact=True)
        _expect_rejected(f"{flaw} name with {case['sep']!r}", lambda: make_graph(ctx2, {"nodes": nodes, "name": f"my{case['sep']}graph"}, "sync"))
    elif flaw in ("default_in_one_only", "different_defaults"):
        shared = {}
        for i, n in enumerate(nodes):
            for p in n.get("params", []):
                shared.setdefault(p, []).append(i)
        for p, idxs in shared.items():
            if len(idxs) < 2:
                continue
            has = any(p in nodes[i].get("defaults", {}) for i in idxs)
            for i in idxs[:3]:
                n = nodes[i]
                if flaw == "default_in_one_only":
                    if has:
                        d = {k: v for k, v in n["defaults"].items() if k != p}
                    else:
                        d = {**n.get("defaults", {}), p: (None if case.get("none_default") else ["lonely", p])}
                else:
                    if not has:
                        continue
                    d = {**n["defaults"], p: ["other_value", p]}
                params = [q for q in n["params"] if q not in d] + [q for q in n["params"] if q in d]
                run(f"parameter {p!r} in node #{i}", variant(i, defaults=d, params=params), i)
    elif flaw == "name_of_nested_graph_taken":
        # a nested graph node called `gwn` sits beside the program; another node calls a DATA output, or an EMIT signal, like it
        gw = {"k": "graph", "name": "gwn", "graph": {"name": "gwn", "nodes": [{"k": "func", "name": "gwn_inner", "params": [], "defaults": {}, "outs": ["gwn_out"]}]}}
        ctx2 = Ctx(compact=True)
        _expect_accepted(f"{flaw} baseline with the nested graph", lambda: _construct(ctx2, nodes + [gw], nested=False))
        for i in funcs:
            run(f"node #{i} has a data output called like the nested graph node", variant(i, outs=list(nodes[i]["outs"]) + ["gwn"]) + [gw], i, nested_off=True)
            run(f"node #{i} emits a signal called like the nested graph node", variant(i, emit=list(nodes[i].get("emit", [])) + ["gwn"]) + [gw], i, nested_off=True)
    elif flaw == "wait_for_hidden_inner_output":
        # `hid` is produced INSIDE a nested graph but not exposed by it (dropped by the inner select, or renamed on the wrapper): an
        # outer node that waits for `hid` waits for a name nobody produces; waiting for the exposed name is fine
        for how in ("select", "rename"):
            inner = {"name": "hw", "nodes": [{"k": "func", "name": "hw_a", "params": [], "defaults": {}, "outs": ["hid"]}, {"k": "func", "name": "hw_b", "params": [], "defaults": {}, "outs": ["shown"]}]}
            gw = {"k": "graph", "name": "hw", "graph": inner}
            exposed = "shown"
            if how == "select":
                gw["graph"] = {**inner, "select": ["shown"]}
            else:
                gw["renames"] = [{"kind": "outputs", "map": {"hid": "hid_out"}}]
                exposed = "hid_out"
            for i in funcs[:3]:
                ctx2 = Ctx(compact=True)
                ok = variant(i, wait_for=list(nodes[i].get("wait_for", [])) + [exposed]) + [gw]
                _expect_accepted(f"{flaw} ({how}) node #{i} waits for the exposed name {exposed!r}", lambda ok=ok, ctx2=ctx2: _construct(ctx2, ok, nested=False))
                run(f"({how}) node #{i} waits for 'hid', which only exists inside the nested graph", variant(i, wait_for=list(nodes[i].get("wait_for", [])) + ["hid"]) + [gw], i, nested_off=True)
    elif flaw == "wait_for_unproduced":
        for i in range(len(nodes)):
            run(f"node #{i} waits for a name nobody produces", variant(i, wait_for=list(nodes[i].get("wait_for", [])) + ["never_produced"]), i)
    elif flaw in ("edge_unknown_node", "edge_unknown_value"):
        prodmap = {o: n["name"] for n in nodes for o in n.get("outs", [])}
        edges = [[prodmap[p], n["name"], [p]] for n in nodes for p in n.get("params", []) if p in prodmap]
        if edges and not any(n["k"] != "func" for n in nodes):
            ctx2 = Ctx(compact=True)
            _expect_accepted(f"{flaw} explicit edges baseline", lambda: make_graph(ctx2, {"nodes": nodes, "edges": edges}, "sync"))
            for ei in range(len(edges)):
                e2 = [list(e) for e in edges]
                if flaw == "edge_unknown_node":
                    for end in (0, 1):
                        e3 = [list(e) for e in edges]
                        e3[ei][end] = "ghost_node"
                        run(f"edge #{ei} end {end}", nodes, ei, edges=e3)
                else:
                    e2[ei][2] = ["ghost_value"]
                    run(f"edge #{ei} value", nodes, ei, edges=e2)
    elif flaw == "unrelated_second_producer":
        for i in funcs:
            for o in nodes[i]["outs"]:
                extra = {"k": "func", "name": "second_producer", "params": [], "defaults": {}, "outs": [o]}
                pos = len(nodes) // 2
                flawed = [dict(n) for n in nodes[:pos]] + [extra] + [dict(n) for n in nodes[pos:]]
                # `second_producer` has no inputs and nobody targets it: neither ordered with nor exclusive to node #i
                if any(o in m.get("params", []) for m in nodes if m["name"] == nodes[i]["name"]):
                    continue
                run(f"second producer of {o!r}", flawed, i)
    elif flaw.startswith("strict"):
        if any(n["k"] != "func" for n in nodes) or any(len(n["outs"]) > 1 for n in nodes):
            ev.discard("strict_needs_single_output_functions")
            return
        ann = _annotate(nodes)
        ctx2 = Ctx(compact=True)
        _expect_accepted(f"{flaw} annotated baseline", lambda: _construct(ctx2, ann, strict=True, nested=nested, present=present))
        prodmap = {o: i for i, n in enumerate(ann) for o in n["outs"]}
        edges = [(prodmap[p], ci, p) for ci, n in enumerate(ann) for p in n["params"] if p in prodmap]
        if flaw == "strict_ordering_edge_ok":
            # NOT a flaw: an ordering-only edge between two typed nodes must stay acceptable in strict mode
            if len(ann) >= 2:
                a, b = 0, len(ann) - 1
                withsig = [dict(n) for n in ann]
                withsig[a]["emit"] = ["sig_done"]
                withsig[b]["wait_for"] = ["sig_done"]
                ctx3 = Ctx(compact=True)
                try:
                    make_graph(Ctx(compact=True), {"nodes": withsig}, "sync")
                except Exception:  # noqa: BLE001 - the signal would close a cycle etc.: not in the domain
                    ev.discard("signal_variant_invalid")
                    return
                _expect_accepted("strict_ordering_edge_ok emit/wait_for pair", lambda: _construct(ctx3, withsig, strict=True, nested=nested))
                sites += 1
        for ei, (pi, ci, p) in enumerate(edges):
            if flaw == "strict_incompatible":
                a2 = [dict(n) for n in ann]
                a2[ci] = {**a2[ci], "ann": {**a2[ci]["ann"], p: "str"}}
                run(f"edge #{ei} {ann[pi]['name']}->{ann[ci]['name']} consumer expects str", a2, ei, last=ann[ci]["name"], strict=True)
                a3 = [dict(n) for n in ann]
                a3[pi] = {**a3[pi], "ann": {**a3[pi]["ann"], "return": "str"}}
                run(f"edge #{ei} producer returns str", a3, ei, strict=True)
            elif flaw == "strict_missing_annotation":
                a2 = [dict(n) for n in ann]
                a2[ci] = {**a2[ci], "ann": {k: v for k, v in a2[ci]["ann"].items() if k != p}}
                run(f"edge #{ei} consumer parameter unannotated", a2, ei, last=ann[ci]["name"], strict=True)
                a3 = [dict(n) for n in ann]
                a3[pi] = {**a3[pi], "ann": {k: v for k, v in a3[pi]["ann"].items() if k != "return"}}
                run(f"edge #{ei} producer return unannotated", a3, ei, strict=True)
            elif flaw == "strict_second_producer_incompatible":
                # two exclusive branches produce p; the one listed SECOND has the wrong type
                for wrong_first, also_other in ((False, False), (True, False), (False, True), (True, True)):
                    ta = {"k": "func", "name": "br_a", "params": [], "defaults": {}, "outs": [p], "ann": {"return": "str" if wrong_first else "int"}}
                    tb = {"k": "func", "name": "br_b", "params": [], "defaults": {}, "outs": [p], "ann": {"return": "int" if wrong_first else "str"}}
                    gate = {"k": "ifelse", "name": "br_gate", "params": [], "defaults": {}, "t": "br_a", "f": "br_b", "table": [True]}
                    rest = [dict(n) for j, n in enumerate(ann) if j != pi]
                    if any(q in prodmap and prodmap[q] == pi for n in rest for q in n["params"] if q != p):
                        continue
                    tb_ok = {**tb, "ann": {"return": "int"}}
                    if also_other:
                        # the second-listed producer ALSO feeds the same consumer another, correctly typed value: the pair of nodes
                        # is already linked, the edge for the shared name must be type-checked all the same
                        wrong = tb if not wrong_first else ta
                        other = "p_extra"
                        wt = wrong["ann"]["return"]
                        wrong.update({"outs": [p, other], "ann": {"return": tuple[(str if wt == "str" else int), int]}})
                        cname = ann[ci]["name"]
                        rest = [({**n, "params": [q for q in n["params"] if q not in n.get("defaults", {})] + [other] + [q for q in n["params"] if q in n.get("defaults", {})],
                                  "ann": {**n["ann"], other: "int"}} if n["name"] == cname else n) for n in rest]
                        if wrong is tb:
                            tb_ok = {**tb, "ann": {"return": tuple[int, int]}}
                    ci_r = next(j for j, n in enumerate(rest) if n["name"] == ann[ci]["name"])
                    flawed = rest[:ci_r] + [gate, ta, tb] + rest[ci_r:]
                    ta_ok = {**ta, "ann": {"return": tuple[int, int] if len(ta["outs"]) == 2 else "int"}}
                    ok_nodes = rest[:ci_r] + [gate, ta_ok, tb_ok] + rest[ci_r:]
                    try:
                        make_graph(Ctx(compact=True), {"nodes": ok_nodes, "strict": True}, "sync")
                    except Exception:  # noqa: BLE001
                        continue
                    run(f"edge #{ei}: a producer of the shared name {p!r} returns str (wrong one listed {'first' if wrong_first else 'second'}{', it also feeds the consumer a second value' if also_other else ''})", flawed, ei + 1, strict=True)
    ev.count("flaw_sites", sites)
    if sites == 0:
        ev.discard("no_site_for:" + flaw)
        return
    ev.case(case, later_site, sorted(labels))


# ------------------------------------------------------------------------------------
# Domain C: the mutex-or-ordered rule
# ------------------------------------------------------------------------------------


def _part_c(case, ev):
    if case["ifelse"]:
        case = {**case, "multi": False}  # an if/else gate is exclusive by definition
    k = case["k"]
    targets = [f"t{i}" for i in range(k)]
    nodes = []
    succ = {}

    def add(name, params, outs):
        nodes.append({"k": "func", "name": name, "params": params, "defaults": {}, "outs": outs})
        succ.setdefault(name, set())

    chain_edges = []
    for i in range(k):
        add(f"t{i}", [], [f"vt{i}"])
        prev_out, prev = f"vt{i}", f"t{i}"
        for j in range(case["chains"][i]):
            nm = f"c{i}_{j}"
            add(nm, [prev_out], [f"v{nm}"])
            succ[prev].add(nm)
            chain_edges.append((i, prev, nm, prev_out))
            prev_out, prev = f"v{nm}", nm
    for ji, members in enumerate(case["joins"]):
        nm = f"j{ji}"
        add(nm, [f"vt{m}" for m in members], [f"v{nm}"])
        for m in members:
            succ[f"t{m}"].add(nm)
    order = [targets[i] for i in case["target_order"]]
    if case["ifelse"]:
        gate = {"k": "ifelse", "name": "gate", "params": [], "defaults": {}, "t": order[0], "f": order[1], "table": [True, False]}
    else:
        gate = {"k": "route", "name": "gate", "params": [], "defaults": {}, "targets": order, "fallback": None, "multi": case["multi"],
                "table": [[order[0]]] if case["multi"] else [order[0]]}
    names = [n["name"] for n in nodes]
    x = names[case["pick"][0] % len(names)]
    y = names[case["pick"][1] % len(names)]
    if x == y:
        ev.discard("same_node_picked")
        return
    prods = [x, y]
    if case.get("pick3") is not None:
        z = names[case["pick3"] % len(names)]
        if z not in prods:
            prods.append(z)  # a THIRD producer: every pair must be exclusive or ordered, adjacent in the node list or not
    contested = None
    if case.get("contest") is not None and chain_edges and not case["multi"]:
        # the NAME carried by one chain edge p -> q gets a second, legal producer w in another (exclusive) branch: the edge still
        # orders p before q, and w now feeds q as well
        bi, p_, q_, e_ = chain_edges[case["contest"] % len(chain_edges)]
        others = [n["name"] for n in nodes if n["name"][0] in "tc" and int(n["name"][1:].split("_")[0]) != bi]
        # (a name that two producers of `r` themselves contest is deliberately not accepted as proof of their order: left out)
        others = [o for o in others if not (o in prods and p_ in prods)]
        if others:
            w_ = others[(case["contest"] // max(1, len(chain_edges))) % len(others)]
            for n in nodes:
                if n["name"] == w_:
                    n["outs"] = n["outs"] + [e_]
            for n in nodes:
                if e_ in n["params"]:
                    succ[w_].add(n["name"])  # w feeds EVERY consumer of the name (q, and possibly a join)
            contested = (p_, w_, e_, q_)
    # all of them produce the shared name `r` (as an additional output)
    for n in nodes:
        if n["name"] in prods:
            n["outs"] = n["outs"] + ["r"]
    allnodes = nodes + [gate]
    second_family = None
    if case.get("second_family") is not None and not case["multi"]:
        # an UNRELATED second gate with its own two branches; one more producer of `r` sits in one of them.  Branches of
        # different gates are not exclusive with each other, whatever their positions.
        sf = case["second_family"]
        u = [{"k": "func", "name": f"u{i}", "params": [], "defaults": {}, "outs": [f"vu{i}"] + (["r"] if i == sf % 2 else [])} for i in range(2)]
        g2 = {"k": "ifelse", "name": "gate2", "params": [], "defaults": {}, "t": "u0", "f": "u1", "table": [True, False]}
        allnodes = allnodes + u + [g2]
        second_family = f"u{sf % 2}"
    perm = sorted(range(len(allnodes)), key=lambda i: (case["node_order"][i % len(case["node_order"])], i))
    allnodes = [allnodes[i] for i in perm]

    def reach(a):
        seen, stack = set(), [a]
        while stack:
            u = stack.pop()
            for v in succ.get(u, ()):
                if v not in seen:
                    seen.add(v)
                    stack.append(v)
        return seen

    r = {t: reach(t) | {t} for t in targets}
    cnt = {}
    for t in targets:
        for v in r[t]:
            cnt[v] = cnt.get(v, 0) + 1
    excl = {t: {v for v in r[t] if cnt[v] == 1} for t in targets}
    def pair_ok(p, q):
        mutex = (not case["multi"]) and any(p in excl[a] and q in excl[b] for a in targets for b in targets if a != b)
        return mutex or q in reach(p) or p in reach(q)

    want_accept = all(pair_ok(p, q) for i, p in enumerate(prods) for q in prods[i + 1:])
    if contested is not None:
        want_accept = want_accept and pair_ok(contested[0], contested[1])
        # With a second producer feeding q, q is reachable from two branches.  Whether such a node still counts as exclusive with a
        # node of a THIRD branch is not settled by the documented rule (never together at run time, but not "exclusively reachable
        # through one target"): the verdict is only asserted where both readings agree.
        bs = {v: {t for t in targets if v in r[t]} for v in names}

        def pair_ok2(p, q):
            mutex = (not case["multi"]) and bool(bs[p]) and bool(bs[q]) and not (bs[p] & bs[q])
            return mutex or q in reach(p) or p in reach(q)

        want2 = all(pair_ok2(p, q) for i, p in enumerate(prods) for q in prods[i + 1:]) and pair_ok2(contested[0], contested[1])
        if want2 != want_accept:
            ev.discard("contested_edge:exclusivity_reading_dependent")
            return
    if second_family is not None:
        want_accept = False  # the extra producer under the unrelated gate is neither exclusive with nor ordered to the others
        prods = prods + [second_family + " (under an unrelated gate)"]
    tag = f"conflict k={k} {'multi' if case['multi'] else 'exclusive'} producers {','.join(prods)} joins={case['joins']} targets listed {order}"
    if contested is not None:
        tag += f"; the edge {contested[0]} -{contested[2]}-> {contested[3]} carries a name that {contested[1]} (another exclusive branch) produces too"

    ctx = Ctx(compact=True)
    if want_accept:
        _expect_accepted(tag, lambda: make_graph(ctx, {"nodes": allnodes}, "sync"))
    else:
        _expect_rejected("shared_output_not_mutex_nor_ordered " + tag, lambda: make_graph(ctx, {"nodes": allnodes}, "sync"))
    labels = {"part:C", f"k:{k}", "accept" if want_accept else "reject", "multi" if case["multi"] else "exclusive", f"producers:{len(prods)}"}
    if case["joins"]:
        labels.add("partial_join")
    if contested is not None:
        labels.add("ordering_edge_name_has_a_second_exclusive_producer")
    ev.case(case, k >= 3 or bool(case["joins"]), sorted(labels))


def check_case(case, ev):
    if case["part"] == "A":
        _part_a(case, ev)
    elif case["part"] == "C":
        _part_c(case, ev)
    else:
        from hypergraph._typing import is_type_compatible

        u = {repr(t): t for t in universe()}
        a, b = u[case["a"]], u[case["b"]]
        want, got = compat(a, b), is_type_compatible(a, b)
        if want is not None and got != want:
            raise Violation("c19.type_relation", f"is_type_compatible({a!r}, {b!r}) = {got}, documented rules give {want}", want=want)
        ev.case(case, True, ["part:B"])
