"""C08 - input contract: the reported input spec is exact; violations fail before execution.  DESIGN.md section 4/C08."""
from __future__ import annotations

import networkx as nx
from hypothesis import strategies as st

from .. import gen, ref
from ..build import Ctx, Injected, J, T, make_graph
from ..core import Violation
from ..gen import prob
from ..loops import loop_graph_spec
from ..observe import AsyncRecorder, Recorder, run_async, run_sync

ID = "C08"
LEVEL = "exploration"
BUDGET = {"quick": 10000, "thorough": 48000}
SHARDS = {"quick": 16, "thorough": 16}
RULE = (
    "Hypothesis-generated graphs: gate-free DAGs, control-flow programs (gates, data cycles, signals), structured loops (flat and "
    "nested in a graph node) and DAGs with a nested interval, each under a drawn configuration (bind subset, unbind, select subset, "
    "with_entrypoint of 1-2 nodes). Oracle: (a) supplying exactly inputs.required plus, per cyclic component of the data graph, "
    "the parameters of one listed entry point is accepted by run() and never fails later for lack of a value; (b) omitting any "
    "single required name raises MissingInputError with no node function, no event and no shutdown observed; (c) required, optional "
    "and entry-point parameters are pairwise disjoint; (d) bind(n) removes n from required and bind(n).unbind(n) restores the "
    "specification exactly; (e) for gate-free DAGs the specification equals an independent reference classification under "
    "bind/select/entry points; (f) a run-time select=S demands exactly what graph.select(*S) reports, also on graphs derived by "
    "bind/unbind after the parent ran with the same select; (g) two ORDERED producers of one name (by a data edge or a signal), "
    "listed in any order: selecting the name keeps both producers and their inputs in scope. Non-trivial = >=2 of {binding, selection, entry point, nesting} and >=2 "
    "required inputs (or an entry-point choice)."
)
ASSUMPTIONS = [
    "cyclic components are read from Graph.nx_graph data edges (structure only; no validation code of the library is reused)",
    "the documented 'ambiguous cycle entry' ValueError for implicitly entered components is a legitimate rejection and is discarded",
]


@st.composite
def _case(draw, tier):
    kind = draw(st.sampled_from(["g1", "g1r", "g1r", "g2", "g2", "loop", "nested", "nestscope", "twocycles", "ordprod", "mutexsel"]))
    c = {"kind": kind}
    if kind == "g1":
        topo = draw(gen.g1_nodes(2, 7))
        # some nodes WAIT for a plain data output they do not take as a parameter (an ordering dependency on a value name)
        for j in range(1, len(topo)):
            earlier = [o for x in topo[:j] for o in x["outs"] if o not in topo[j]["params"]]
            if earlier and prob(draw, 0.2):
                topo[j]["wait_for"] = [draw(st.sampled_from(earlier))]
        # some nodes are INTERRUPTS (auto-answering handlers): what they produce is an ordinary value name; when an entry point
        # or a selection puts the interrupt out of scope, the names it would have produced are inputs like any other
        for x in topo:
            if len(x["outs"]) == 1 and x["params"] and not x.get("wait_for") and prob(draw, 0.15):
                x.update({"k": "interrupt", "mode": "auto", "answer": ["ans", x["name"]]})
        c["nodes"] = draw(gen.permuted(topo))
    elif kind == "ordprod":
        # two ORDERED producers of one name: A -> (v, ow) and B(ow | wait_for A's signal, own input) -> v.  Selecting v keeps both in
        # scope whatever order they are listed in (selections further downstream of v are left out: open finding F9 makes the
        # consumer's producer depend on the listing order)
        topo = draw(gen.g1_nodes(2, 5, default_on_edge=0.0))
        cands = [i for i, x in enumerate(topo) if x["outs"]]
        if not cands:
            topo[0]["outs"] = ["o_forced"]
            cands = [0]
        a = draw(st.sampled_from(cands))
        A = topo[a]
        v = draw(st.sampled_from(A["outs"]))
        B = {"k": "func", "name": "opB", "params": [], "defaults": {}, "outs": [v]}
        how = draw(st.sampled_from(["data", "data", "signal"]))
        if how == "data":
            A["outs"] = A["outs"] + ["ow"]
            B["params"].append("ow")
        else:
            A["emit"] = ["osig"]
            B["wait_for"] = ["osig"]
        if prob(draw, 0.8):
            B["params"].append("os")
        if prob(draw, 0.3):
            B["params"].append("os2")
            B["defaults"]["os2"] = ["dflt", "os2"]
        if prob(draw, 0.3):
            B["outs"] = B["outs"] + ["ob"]
        down = ref.descendants(topo, {x["name"] for x in topo if v in x["params"]})
        others = [o for x in topo if x["name"] not in down for o in x["outs"] if o != v]
        sel = [v] + ([draw(st.sampled_from(others))] if others and prob(draw, 0.3) else [])
        c["nodes"] = draw(gen.permuted(topo + [B]))
        c["op"] = {"v": v, "A": A["name"], "how": how, "sel": list(draw(st.permutations(sel)))}
    elif kind == "mutexsel":
        # `res` has two mutually exclusive producers: p1 directly below the gate, p2 at the end of a chain below the gate's other
        # target; a consumer chain follows.  Selecting `res` (or what follows it) keeps BOTH branches and the gate in scope.
        def own(nm):
            return [f"x_{nm}"] if prob(draw, 0.7) else []
        nodes = [{"k": "func", "name": "p1", "params": own("p1"), "defaults": {}, "outs": ["res"]},
                 {"k": "func", "name": "t", "params": own("t") or ["x_t"], "defaults": {}, "outs": ["u0"]}]
        prev = "u0"
        for j in range(draw(st.integers(0, 2))):
            nodes.append({"k": "func", "name": f"m{j}", "params": [prev] + own(f"m{j}"), "defaults": {}, "outs": [f"u{j + 1}"]})
            prev = f"u{j + 1}"
        nodes.append({"k": "func", "name": "p2", "params": [prev, "x_p2"], "defaults": {}, "outs": ["res"]})
        sel = "res"
        for j in range(draw(st.integers(0, 2))):
            nodes.append({"k": "func", "name": f"c{j}", "params": [sel] + own(f"c{j}"), "defaults": {}, "outs": [f"f{j}"]})
            sel = f"f{j}"
        gp = ["flag"] if prob(draw, 0.8) else []
        if draw(st.booleans()):
            nodes.append({"k": "ifelse", "name": "gate", "params": gp, "defaults": {}, "t": "p1", "f": "t", "table": [True, False], "default_open": draw(st.booleans())})
        else:
            nodes.append({"k": "route", "name": "gate", "params": gp, "defaults": {}, "targets": draw(st.permutations(["p1", "t"])), "fallback": None, "multi": False, "table": ["p1", "t"],
                          "default_open": draw(st.booleans())})
        c["nodes"] = draw(gen.permuted(nodes))
        c["ms"] = {"sel": [sel]}
    elif kind == "g1r":
        # node objects are first used in a graph, then renamed by a bijection (swaps included) and used in a second graph
        topo = draw(gen.g1_nodes(2, 6))
        names = sorted({p for n in topo for p in n["params"]} | {o for n in topo for o in n["outs"]})
        tgt = draw(st.permutations(names)) if draw(st.booleans()) else draw(st.permutations(names + [f"z{i}" for i in range(len(names))]))[: len(names)]
        sigma = dict(zip(names, tgt))
        c["nodes"] = draw(gen.permuted(topo))
        c["sigma"] = sigma
        c["renames"] = {n["name"]: draw(gen.rename_history({p: sigma[p] for p in n["params"]}, "inputs", "ri_"))
                        + draw(gen.rename_history({o: sigma[o] for o in n["outs"]}, "outputs", "ro_")) for n in topo}
    elif kind == "nestscope":
        # one interval of a flat DAG wrapped (no renames) with bindings INSIDE the nested graph, possibly on a name that a
        # plain outside node also takes; select / with_entrypoint may then put the wrapper out of scope
        topo = draw(gen.g1_nodes(3, 7, default_on_edge=0.0))
        n = len(topo)
        a = draw(st.integers(0, n - 1))
        b = draw(st.integers(a + 1, n))
        S = topo[a:b]
        allprod = ref.producers(topo)
        ext_pure = list(dict.fromkeys(q for x in S for q in x["params"] if q not in allprod))
        shared = [q for q in ext_pure if any(q in x["params"] for x in topo[:a] + topo[b:])]
        ib = set(draw(gen.subset(ext_pure, 0.4))) | set(draw(gen.subset(shared, 0.6)))
        wrapper = {"k": "graph", "name": "wrap", "graph": {"nodes": [dict(x) for x in S], "name": "wrap", "bind": {q: ["ibound", q] for q in sorted(ib)}}}
        c["nodes"] = draw(gen.permuted(topo[:a] + [wrapper] + topo[b:]))
    elif kind == "twocycles":
        # 2-3 data-independent cycles (accumulators, or two-node rings) whose only link is one gate that reads from and
        # routes to all of them: every cycle has its own entry points and needs its own seed
        k = draw(st.integers(2, 3))
        nodes = []
        heads = []
        for i in range(k):
            if draw(st.booleans()):
                nodes.append({"k": "func", "name": f"c{i}", "params": [f"s{i}"] + ([f"x{i}"] if draw(st.booleans()) else []), "defaults": {}, "outs": [f"s{i}"]})
            else:
                nodes.append({"k": "func", "name": f"c{i}", "params": [f"s{i}"], "defaults": {}, "outs": [f"m{i}"]})
                nodes.append({"k": "func", "name": f"d{i}", "params": [f"m{i}"], "defaults": {}, "outs": [f"s{i}"]})
            heads.append(f"c{i}")
        multi = draw(st.booleans())
        targets = draw(st.permutations(heads + ["END"]))
        if multi:
            table = [[t for t in heads if prob(draw, 0.7)] for _ in range(draw(st.integers(1, 3)))] + [["END"]]
        else:
            table = draw(st.lists(st.sampled_from(heads + ["END"]), min_size=1, max_size=3)) + ["END"]
        nodes.append({"k": "route", "name": "gg", "params": [f"s{i}" for i in range(k)], "defaults": {}, "targets": list(targets), "multi": multi, "fallback": None,
                      "table": table, "default_open": draw(st.booleans())})
        c["nodes"] = draw(gen.permuted(nodes))
    elif kind == "g2":
        c["nodes"], _ = draw(gen.g2_nodes(max_nodes=5, p_fail=0.0, p_cycle=0.6))
    elif kind == "loop":
        from .c04 import _case as loop_case

        c["loop"] = draw(loop_case(tier))["loop"]
        c["loop"]["entry"] = 0
        for k_ in ("entry_set", "entry_chain", "pre_entry"):
            c["loop"].pop(k_, None)  # (entry-point sets on a cycle are C04's / C16's subject; here the configuration is drawn below)
        if prob(draw, 0.5):
            c["loop"]["nested"] = True
            c["loop"]["k"] = draw(st.integers(1, 3))
        elif c["loop"]["form"] in ("while", "dowhile", "signal") and prob(draw, 0.5):
            # a DAG stage in front of the loop (mk_limit -> limit) carries the configured entry point: the loop is downstream of
            # it, in scope, and still needs its own seed
            c["loop"]["limit_input"] = True
            c["entry_upstream"] = True
    else:
        topo = draw(gen.g1_nodes(3, 7))
        prod = ref.producers(topo)
        pure = [p for n in topo for p in n["params"] if p not in prod]
        ibind = {p: ["bound", p] for p in draw(gen.subset(list(dict.fromkeys(pure)), 0.4))}
        outer, hidden, inactive = draw(gen.nest_spec(topo, draw(st.sampled_from([1, 2])), ibind))
        c["nodes"] = draw(gen.permuted(outer))
    c["bind"] = draw(st.lists(st.integers(0, 9), max_size=3))
    c["unbind"] = draw(st.lists(st.integers(0, 9), max_size=1))
    c["select"] = draw(st.lists(st.integers(0, 9), max_size=2)) if prob(draw, 0.4) else None
    c["entry"] = draw(st.lists(st.integers(0, 9), min_size=1, max_size=2)) if prob(draw, 0.35) else None
    c["rt_select"] = draw(st.lists(st.integers(0, 9), min_size=1, max_size=2))
    c["ep_pick"] = draw(st.integers(0, 7))
    return c


def strategy(tier):
    return _case(tier)


def _spec_of(g):
    sp = g.inputs
    return (tuple(sp.required), tuple(sp.optional), {k: tuple(v) for k, v in sp.entrypoints.items()}, {k: repr(v) for k, v in sp.bound.items()})


def _cyclic_components(g):
    dg = nx.DiGraph()
    dg.add_nodes_from(g.nx_graph.nodes())
    dg.add_edges_from((u, v) for u, v, d in g.nx_graph.edges(data=True) if d.get("edge_type") == "data")
    comps = []
    for scc in nx.strongly_connected_components(dg):
        if len(scc) > 1 or any(dg.has_edge(n, n) for n in scc):
            comps.append(scc)
    return comps


TYPED: dict = {}  # per-case typed values for names whose consumers do arithmetic (structured loops)


def _sufficient_values(g, pick):
    """required + the parameters of one listed entry point per cyclic component. Returns (values, run kwargs, chosen eps)."""
    sp = g.inputs
    vals = {p: TYPED.get(p, ("req", p)) for p in sp.required}
    kw = {}
    chosen = []
    eps = sp.entrypoints
    if eps:
        comps = _cyclic_components(g)
        for comp in sorted(comps, key=lambda c: sorted(c)):
            cands = sorted(n for n in comp if n in eps)
            if not cands:
                continue
            # prefer the smallest parameter set, rotate among ties by the drawn pick
            m = min(len(eps[n]) for n in cands)
            small = [n for n in cands if len(eps[n]) == m]
            ep = small[pick % len(small)]
            chosen.append(ep)
            for p in eps[ep]:
                vals[p] = TYPED.get(p, ("ep", p))
        loose = [n for n in eps if not any(n in c for c in comps)]
        if loose:
            raise Violation("c08.entrypoint_outside_cycle", f"entry points {loose} are not in any cyclic component of the data graph")
        if chosen:
            kw["entrypoint"] = chosen[0]
    return vals, kw, chosen


def _run(g, vals, recorder=False, **kw):
    use_async = g.has_async_nodes or g.has_interrupts
    rec = (AsyncRecorder() if use_async else Recorder()) if recorder else None
    if rec is not None:
        kw["event_processors"] = [rec]
    out = (run_async if use_async else run_sync)(g, vals, **kw)
    return out, rec


def _check_sufficiency(g, ctx, pick, tag, ev, extra_kw=None, labels=None, shape=None):
    vals, kw, chosen = _sufficient_values(g, pick)
    kw.update(extra_kw or {})
    ctx.reset()
    out, _ = _run(g, vals, max_iterations=15, error_handling="continue", **kw)
    if out.status == "raised":
        msg = str(out.error)
        if isinstance(out.error, ValueError) and "Ambiguous cycle entry" in msg and len(chosen) > 1 and _legit_ambiguous(g, vals):
            ev.discard("ambiguous_entry_in_implicit_component")
            return vals, kw, False
        raise Violation(
            "c08.sufficiency",
            f"[{tag}] supplying required={g.inputs.required} + entry points {chosen} ({J(vals)}) was rejected: {type(out.error).__name__}: {msg[:300]}",
            error=type(out.error).__name__, shape=shape or "flat",
        )
    if chosen and "entrypoint" in kw and not extra_kw:
        # the same values WITHOUT naming an entry point: every cyclic component is seeded through exactly one of its listed
        # entry points, which is what the documentation asks for; only the documented ambiguity may be refused
        ctx.reset()
        kw2 = {k: v for k, v in kw.items() if k != "entrypoint"}
        out2, _ = _run(g, vals, max_iterations=15, error_handling="continue", **kw2)
        if out2.status == "raised" and not (isinstance(out2.error, ValueError) and "Ambiguous cycle entry" in str(out2.error) and _legit_ambiguous(g, vals)):
            raise Violation(
                "c08.sufficiency",
                f"[{tag}, entry point not named] supplying required={g.inputs.required} + the parameters of entry points {chosen} ({J(vals)}) was rejected: {type(out2.error).__name__}: {str(out2.error)[:300]}",
                error=type(out2.error).__name__, shape=shape or "flat", implicit_entry=True,
            )
        ctx.reset()
    if out.status == "failed":
        from hypergraph import InfiniteLoopError

        if not isinstance(out.error, (Injected, InfiniteLoopError)):
            raise Violation(
                "c08.accepted_then_failed",
                f"[{tag}] run accepted {J(vals)} (entry points {chosen}) but failed while executing: {type(out.error).__name__}: {str(out.error)[:300]}",
                error=type(out.error).__name__, shape=shape or "flat",
            )
    return vals, kw, True


def _legit_ambiguous(g, vals):
    """The documented ambiguity: inside ONE cyclic component (data edges) the supplied values satisfy two entry points with
    different parameter sets.  Values that seed two different components are not ambiguous."""
    eps = g.inputs.entrypoints
    have = set(vals)
    for comp in _cyclic_components(g):
        sat = {tuple(eps[n]) for n in comp if n in eps and set(eps[n]) <= have}
        if len(sat) > 1:
            return True
    return False


def _check_necessity(g, ctx, vals, kw, tag, extra_kw=None):
    from hypergraph import MissingInputError

    kw = {**kw, **(extra_kw or {})}
    n = 0
    for p in g.inputs.required:
        if p not in vals:
            continue
        v2 = {k: v for k, v in vals.items() if k != p}
        ctx.reset()
        out, rec = _run(g, v2, recorder=True, max_iterations=15, **kw)
        n += 1
        if out.status != "raised" or not isinstance(out.error, MissingInputError):
            raise Violation("c08.necessity", f"[{tag}] omitting required input {p!r} was not rejected with MissingInputError: {out.brief()}", got=out.status)
        if ctx.log or rec.events or rec.shutdowns:
            raise Violation("c08.rejected_with_side_effects", f"[{tag}] rejection of missing {p!r} came after {len(ctx.log)} node calls, {len(rec.events)} events, {rec.shutdowns} shutdowns")
    # several cyclic components: each needs the parameters of one of its entry points, whichever entry point is NAMED in the call
    eps = g.inputs.entrypoints
    chosen = []
    for comp_ in sorted(_cyclic_components(g), key=lambda c_: sorted(c_)):
        sat = [m for m in sorted(comp_) if m in eps and set(eps[m]) <= set(vals)]
        if sat:
            chosen.append(sat[0])  # the entry point of that component the supplied values satisfy
    if len(chosen) >= 2 and not extra_kw:
        for ep in chosen:
            others = {q for e2 in chosen if e2 != ep for q in eps[e2]}
            own = [q for q in eps[ep] if q not in others and q not in g.inputs.required and q in vals]
            if not own:
                continue
            comp = next(c for c in _cyclic_components(g) if ep in c)
            # withholding this seed must leave NO entry point of that component satisfied
            v2 = {k: v for k, v in vals.items() if k not in own}
            if any(set(eps[m]) <= set(v2) for m in comp if m in eps):
                continue
            for named in [e2 for e2 in chosen if e2 != ep][:1]:
                ctx.reset()
                out, rec = _run(g, v2, recorder=True, max_iterations=15, **{**kw, "entrypoint": named})
                n += 1
                if out.status != "raised" or not isinstance(out.error, MissingInputError):
                    raise Violation("c08.necessity", f"[{tag}, entrypoint={named!r}] the cycle of {ep!r} got no seed ({own} withheld) but the call was not rejected with MissingInputError: {out.brief()}", got=out.status, what="cycle_seed")
                if ctx.log or rec.events or rec.shutdowns:
                    raise Violation("c08.rejected_with_side_effects", f"[{tag}] rejection of the missing cycle seed {own} came after {len(ctx.log)} node calls, {len(rec.events)} events")
    return n


def check_case(case, ev):
    kind = case["kind"]
    labels = {f"kind:{kind}"}
    ctx = Ctx(compact=True)
    shape = "flat"
    TYPED.clear()
    if kind == "loop":
        L = case["loop"]
        TYPED.update({"i": L["start"], "acc": (), "step": L["step"], "limit": L["limit"], "x": L["limit"] - L.get("limit_off", 0), "go": True})
        TYPED.update({f"t{j}": ("t", j, L["start"]) for j in range(4)})
        TYPED.update({"messages": (), "query": ("q", 0), "response": ("r", 0), "tot": ()})
        gspec = loop_graph_spec(case["loop"])
        if case.get("entry_upstream") and not case["loop"].get("nested"):
            L_ = case["loop"]
            gspec = {"nodes": gspec["nodes"] + [{"k": "func", "name": "mk_limit", "params": ["x"], "defaults": {}, "outs": ["limit"], "expr": f"x + {L_.get('limit_off', 0)}"}],
                     "entry": ["mk_limit"]}
            case = {**case, "entry": None, "select": None}
            labels.add("entry_point_on_a_stage_in_front_of_the_loop")
        if case["loop"].get("nested"):
            labels.add("nested_loop")
            # F11 applies when the wrapped loop offers several entry points with different parameter sets
            try:
                inner = make_graph(Ctx(compact=True), loop_graph_spec({**case["loop"], "nested": False}), "sync")
                if len({tuple(v) for v in inner.inputs.entrypoints.values()}) >= 2:
                    shape = "nested_cycle_multi_entry"
            except Exception:  # noqa: BLE001
                pass
    else:
        gspec = {"nodes": case["nodes"]}
    try:
        g0 = make_graph(ctx, gspec, "sync")
        if kind == "g1r":
            from hypergraph import Graph

            from ..build import apply_renames
            from ..gen import _rename_node

            _ = g0.inputs, [n.defaults for n in g0.nodes.values()]  # the original objects have been used
            renamed = [apply_renames(g0.nodes[n["name"]], {"renames": case["renames"][n["name"]]}) for n in case["nodes"]]
            g0 = Graph(renamed)
            case = {**case, "nodes": [_rename_node(n, case["sigma"]) for n in case["nodes"]]}
            kind = "g1"
            labels.add("renamed_after_use")
    except Exception as e:  # noqa: BLE001
        ev.discard("construct:" + type(e).__name__)
        return
    nfeat = 0
    g = g0
    # ---- configuration
    # binding a name that some node also produces is the documented intermediate-value injection (bypass), which the
    # property does not cover: only pure inputs are bound
    names = [n for n in g.inputs.all if n not in set(g.outputs)]
    bound_names = sorted({names[i % len(names)] for i in case["bind"]}) if names else []
    if bound_names:
        g = g.bind(**{n: TYPED.get(n, ("bound", n)) for n in bound_names})
        nfeat += 1
        labels.add("bind")
        ub = sorted({bound_names[i % len(bound_names)] for i in case["unbind"]})
        if ub:
            g = g.unbind(*ub)
            labels.add("unbind")
    sel = None
    if kind == "mutexsel":
        case = {**case, "select": None, "entry": None}
        sel = list(case["ms"]["sel"])
        g = g.select(*sel)
        nfeat += 1
        labels.update({"select", "exclusive_producers_one_below_a_chain"})
    if kind == "ordprod":
        case = {**case, "select": None, "entry": None}
        sel = list(case["op"]["sel"])
        g = g.select(*sel)
        nfeat += 1
        labels.update({"select", "ordered_producers:" + case["op"]["how"],
                       "later_producer_listed_first" if [x["name"] for x in case["nodes"]].index("opB") < [x["name"] for x in case["nodes"]].index(case["op"]["A"]) else "natural_listing"})
    if case["select"] is not None and g.outputs:
        outs = list(g.outputs)
        sel = list(dict.fromkeys(outs[i % len(outs)] for i in case["select"]))
        if sel:
            g = g.select(*sel)
            nfeat += 1
            labels.add("select")
        else:
            sel = None
    entry = None
    if case["entry"] is not None:
        nn = list(g.nodes)
        entry = list(dict.fromkeys(nn[i % len(nn)] for i in case["entry"]))
        try:
            g = g.with_entrypoint(*entry)
            nfeat += 1
            labels.add("with_entrypoint")
        except Exception as e:  # noqa: BLE001 - gates cannot be entry points
            ev.count("entrypoint_rejected:" + type(e).__name__)
            entry = None
    if kind in ("nested",) or (kind == "loop" and case["loop"].get("nested")):
        nfeat += 1
    sp = g.inputs
    if case.get("entry_upstream") and kind == "loop" and not case["loop"].get("nested"):
        # the loop is downstream of the configured entry point: its cycle is in scope and must still be enterable
        if not sp.entrypoints:
            raise Violation("c08.cycle_seed_not_required", f"with_entrypoint('mk_limit') on the stage in front of the loop: the cycle lies downstream of it but the spec lists no way to seed it "
                            f"(required={sp.required} optional={sp.optional} entrypoints={sp.entrypoints}); a run without a seed would be accepted and the loop would never start")
    if kind == "loop" and not case["loop"].get("nested") and not case.get("entry_upstream") and entry is None and sel is None:
        # a plain loop graph: its carried value is produced inside the cycle only, so the spec must offer a way to seed it
        # the gate's target b0 takes the carried value, which only the cycle produces: it is the loop's natural way in, whatever the
        # gate's default_open flag says (which of the OTHER body nodes are listed follows the library's own de-duplication rules)
        has_b0 = any(n_["name"] == "b0" for n_ in gspec["nodes"])
        if not sp.entrypoints or (has_b0 and "b0" not in sp.entrypoints):
            raise Violation("c08.cycle_seed_not_required", f"the loop's first body node b0 takes the carried value, which only the cycle produces, but the spec lists entry points {sp.entrypoints} "
                            f"(required={sp.required} optional={sp.optional}); loop={J(case['loop'])}", plain_loop=True)
    # ---- (c) disjointness
    req, opt = set(sp.required), set(sp.optional)
    epp = {p for ps in sp.entrypoints.values() for p in ps}
    if req & opt or req & epp or opt & epp:
        raise Violation("c08.not_disjoint", f"required={sp.required} optional={sp.optional} entrypoints={sp.entrypoints}")
    if len(sp.required) != len(req) or len(sp.optional) != len(opt):
        raise Violation("c08.duplicates", f"required={sp.required} optional={sp.optional}")
    # ---- (e) reference classification for gate-free DAGs
    if kind == "mutexsel":
        allp = {q for x in case["nodes"] for q in x.get("params", [])} - {o for x in case["nodes"] for o in x.get("outs", [])}
        want_req = allp - set(sp.bound)
        if req != want_req or (opt - set(sp.bound)) or sp.entrypoints:
            raise Violation("c08.reference_spec", f"`res` comes from p1 or, through the chain below the gate's other target, from p2; select={sel}, nodes listed {[x['name'] for x in case['nodes']]}: "
                            f"reported required={sorted(req)} optional={sorted(opt)}; every node lies upstream of the selection through one of the producers: required={sorted(want_req)}",
                            what="required", exclusive_producers=True)
    if kind == "ordprod":
        # reference: the later producer under a private output name (so producers are unique), in scope together with the earlier one
        v = case["op"]["v"]
        ref_nodes = [({**x, "outs": [("__second_" + o if o == v else o) for o in x["outs"]]} if x["name"] == "opB" else x) for x in case["nodes"]]
        r_req, r_opt, r_active = ref.input_spec(ref_nodes, {n: 1 for n in sp.bound}, sel + ["__second_" + v], None, ordering=True)
        if r_req != req or r_opt != opt or sp.entrypoints:
            raise Violation("c08.reference_spec", f"two ordered producers of {v!r} ({case['op']['A']} then opB, listed {[x['name'] for x in case['nodes']]}), select={sel}: reported required={sorted(req)} "
                            f"optional={sorted(opt)}; both producers and what they need are in scope: required={sorted(r_req)} optional={sorted(r_opt)}",
                            what="required" if r_req != req else "optional", ordered_producers=True)
    if kind in ("g1", "nestscope"):
        bound_now = {n: 1 for n in sp.bound}
        ref_nodes = case["nodes"]
        if kind == "nestscope":
            # the wrapper as ONE unit of scoping: its inputs are what its nodes take from outside; a name bound inside or
            # defaulted inside has a fallback; graph-level bound names that only come from an out-of-scope wrapper do not count
            ref_nodes = []
            for x in case["nodes"]:
                if x["k"] != "graph":
                    ref_nodes.append(x)
                    continue
                S = x["graph"]["nodes"]
                sprod = {o for y in S for o in y["outs"]}
                ext = list(dict.fromkeys(q for y in S for q in y["params"] if q not in sprod))
                dfl = {q: 1 for q in ext if q in x["graph"].get("bind", {}) or any(q in y.get("defaults", {}) for y in S)}
                ref_nodes.append({"k": "func", "name": x["name"], "params": ext, "defaults": dfl, "outs": [o for y in S for o in y["outs"]]})
            labels.add("wrapper_with_inner_binding_shared_outside" if any(
                x["k"] == "graph" and any(q in y.get("params", []) for q in x["graph"].get("bind", {}) for y in case["nodes"] if y["k"] != "graph") for x in case["nodes"]) else "wrapper")
            own_bound = set(bound_names) - set(ub if bound_names else [])
            bound_now = {n: 1 for n in own_bound}
        r_req, r_opt, r_active = ref.input_spec(ref_nodes, bound_now, sel, entry, ordering=True)
        if kind == "nestscope" and not any(x["k"] == "graph" and x["name"] in r_active for x in case["nodes"]):
            labels.add("wrapper_out_of_scope")
        if r_req != req or r_opt != opt or sp.entrypoints:
            raise Violation("c08.reference_spec", f"reported required={sorted(req)} optional={sorted(opt)} entrypoints={sp.entrypoints}; reference required={sorted(r_req)} optional={sorted(r_opt)} (bound={sorted(bound_now)} select={sel} entry={entry})",
                            what="required" if r_req != req else "optional")
    # ---- (d) bind / unbind
    before = _spec_of(g)
    for n in list(sp.required)[:3]:
        gb = g.bind(**{n: TYPED.get(n, ("b2", n))})
        if n in gb.inputs.required:
            raise Violation("c08.bind_keeps_required", f"bind({n}) left it in required: {gb.inputs.required}")
        if set(gb.inputs.required) != req - {n}:
            raise Violation("c08.bind_changes_others", f"bind({n}): required {sp.required} -> {gb.inputs.required}")
        if _spec_of(gb.unbind(n)) != before:
            raise Violation("c08.unbind_not_inverse", f"bind({n}).unbind({n}) gives {_spec_of(gb.unbind(n))}, before {before}")
        # ... and unbinding on the DERIVED graph leaves the bound graph bound: a further derivation of it still has the binding
        if gb.outputs:
            o = list(gb.outputs)[0]
            try:
                fresh, again = _spec_of(g.bind(**{n: TYPED.get(n, ("b2", n))}).select(o)), _spec_of(gb.select(o))
            except Exception:  # noqa: BLE001 - selection rejected for this configuration: nothing to compare
                fresh = again = None
            if fresh != again:
                raise Violation("c08.unbind_changed_source", f"after bind({n}) -> unbind({n}) on the derived graph, bound_graph.select({o}) reports {again}; a freshly bound graph reports {fresh}")
        if _spec_of(g) != before:
            raise Violation("c08.receiver_changed", f"spec of receiver changed by bind/unbind: {before} -> {_spec_of(g)}")
    # ---- (a) sufficiency, (b) necessity
    vals, kw, ok = _check_sufficiency(g, ctx, case["ep_pick"], "run", ev, shape=shape)
    if ok and kind == "nestscope":
        # a gate-free program whose required inputs are supplied: every node in scope runs (optional names fall back to their
        # default or to the binding made inside the nested graph, which the spec itself reports as the fallback)
        ran = {f for f, _ in ctx.log}
        expect_ran = set()
        for x in case["nodes"]:
            if x["name"] in r_active:
                expect_ran |= {y["name"] for y in x["graph"]["nodes"]} if x["k"] == "graph" else {x["name"]}
        idle = sorted(expect_ran - ran)
        if idle:
            raise Violation("c08.accepted_but_idle", f"[run] supplying exactly the required inputs {J(vals)} was accepted but nodes {idle} never ran although every input they take is required-and-given, defaulted or bound (reported optional={sorted(opt)} bound={sorted(sp.bound)})")
    nomit = 0
    if ok:
        nomit = _check_necessity(g, ctx, vals, kw, "run")
        labels.add("necessity_checked")
    # ---- (f) run-time select must demand exactly what graph.select(*S) reports
    if g.outputs and kind != "loop":
        outs = list(g.outputs)
        S = list(dict.fromkeys(outs[i % len(outs)] for i in case["rt_select"]))
        if kind in ("ordprod", "mutexsel"):
            S = list(sel)
        gs = g.select(*S)
        v2, kw2, ok2 = _check_sufficiency_rt(g, gs, S, ctx, case["ep_pick"], ev)
        if ok2:
            labels.add("runtime_select")
            # derived graphs after the parent ran with the same select
            for n in list(gs.inputs.required)[:2]:
                try:
                    gb = g.bind(**{n: TYPED.get(n, ("b3", n))})
                except ValueError:
                    continue  # not an input under g's own selection
                _check_sufficiency_rt(gb, gb.select(*S), S, ctx, case["ep_pick"], ev, derived=f"bind({n})")
                gu = gb.unbind(n)
                _check_sufficiency_rt(gu, gu.select(*S), S, ctx, case["ep_pick"], ev, derived=f"bind({n}).unbind({n})")
    nontrivial = nfeat >= 2 and (len(sp.required) >= 2 or bool(sp.entrypoints))
    ev.count("omissions_checked", nomit)
    ev.case(case, nontrivial, sorted(labels))


def _check_sufficiency_rt(g, gs, S, ctx, pick, ev, derived=None):
    """Run g with select=S supplying what gs = g.select(*S) reports; then omit each required name."""
    from hypergraph import MissingInputError

    tag = f"run-time select={S}" + (f" on {derived}" if derived else "")
    vals, kw, _ = _sufficient_values(gs, pick)
    ctx.reset()
    out, _ = _run(g, vals, max_iterations=15, error_handling="continue", select=S, **kw)
    if out.status == "raised":
        if isinstance(out.error, ValueError) and "Ambiguous cycle entry" in str(out.error) and _legit_ambiguous(gs, vals):
            ev.discard("ambiguous_entry_in_implicit_component")
            return vals, kw, False
        raise Violation("c08.runtime_select_sufficiency", f"[{tag}] supplying what graph.select(*S) reports (required={gs.inputs.required}) was rejected: {type(out.error).__name__}: {str(out.error)[:300]}",
                        derived=bool(derived))
    for p in gs.inputs.required:
        v2 = {k: v for k, v in vals.items() if k != p}
        ctx.reset()
        out, rec = _run(g, v2, recorder=True, max_iterations=15, select=S, **kw)
        if out.status != "raised" or not isinstance(out.error, MissingInputError):
            raise Violation("c08.runtime_select_necessity", f"[{tag}] omitting {p!r} (required under graph.select(*S)) gave {out.brief()}", derived=bool(derived))
        if ctx.log or rec.events or rec.shutdowns:
            raise Violation("c08.rejected_with_side_effects", f"[{tag}] rejection of missing {p!r} came after {len(ctx.log)} calls / {len(rec.events)} events")
    return vals, kw, True
