"""C17 - ordering signals: a waiting node runs after, and once per, each production.  DESIGN.md section 4/C17."""
from __future__ import annotations

from hypothesis import strategies as st

from .. import gen, ref
from ..build import Ctx, J, T, make_graph
from ..core import Violation
from ..gen import prob
from ..loops import eval_loop, loop_graph_spec, loop_values
from ..observe import Recorder, run_sync
from ..sched import run_scheduled

ID = "C17"
LEVEL = "exploration"
BUDGET = {"quick": 3200, "thorough": 40000}
SHARDS = {"quick": 16, "thorough": 16}
RULE = (
    "Part A: Hypothesis-generated acyclic programs (3-8 nodes) with 1-3 ordering signals: producers are function nodes, an emitting "
    "gate or an auto-answering interrupt; 1-3 waiters per signal (function nodes and gates), waiters on two names at once, waits "
    "on data names. Part B: structured loops synchronised on signals: gate waiting for the end-of-iteration emit, self-accumulating "
    "target with a late emitter, last body node waiting for two signals emitted in different supersteps; 0-8 iterations. Both "
    "runners; async under drawn completion schedules. Oracle: safety monitor over the event stream - before the j-th start of a "
    "waiter every awaited name must have been produced (NodeEnd of a producer) since the waiter's previous start, and (async, "
    "where supersteps are observable) never in the waiter's own step; liveness in its decidable form - in a DAG every waiter "
    "whose awaited producers and data inputs exist runs, and the returned values equal the reference evaluator; loops reach the "
    "sequential loop's final values and body counts (a waiter owed a run at quiescence stalls the loop). Non-trivial = a signal "
    "produced >=2 times with a waiter that must re-run, or a waiter on >=2 names."
)
ASSUMPTIONS = [
    "re-arming by a DATA name re-produced with an equal value is not demanded (value-equality versioning is documented)",
    "relative order of two waiters of one signal is not constrained",
]


@st.composite
def _case(draw, tier):
    if prob(draw, 0.4):
        form = draw(st.sampled_from(["signal", "selfsignal", "waitlast", "chat"]))
        step = draw(st.sampled_from([1, 1, 2]))
        start = draw(st.integers(0, 3))
        iters = draw(st.integers(0, 8))
        limit = start + iters * step if iters > 0 else start - draw(st.integers(0, 1))
        L = {"k": draw(st.integers(1, 4)), "form": form, "gate": draw(st.sampled_from(["ifelse", "route"])), "exit": draw(st.sampled_from(["END", "node"])),
             "dopen": draw(st.booleans()), "limit": limit, "step": step, "start": start, "limit_input": draw(st.booleans()), "step_input": draw(st.booleans()),
             "acc": False, "nested": False, "limit_off": 0, "entry": 0, "b0_waits": draw(st.booleans()), "const_emitter": draw(st.booleans()), "gate_free_running": draw(st.booleans())}
        if form == "selfsignal":
            L["k"] = draw(st.sampled_from([2, 3, 3, 4]))
        if form == "waitlast":
            L["k"] = draw(st.integers(3, 4))
        if form == "chat":
            L.update({"k": 1, "step_input": False, "limit": 2 * draw(st.integers(0, 4)), "start": 0, "step": 1})
        return {"part": "B", "loop": L, "order": draw(st.lists(st.integers(0, 9), min_size=10, max_size=10)), "sched": draw(st.lists(st.integers(0, 5), max_size=40)),
                "cache_body": prob(draw, 0.4),
                # a side chain off the carried variable: ep(i) -> epoch = i // m (changes every m-th iteration only), cfgn(epoch) -> cfg,
                # and snap(i) which WAITS for the data name `cfg` without taking it: its input changes every iteration, `cfg` does not
                "datawait": draw(st.integers(2, 3)) if form != "chat" and prob(draw, 0.4) else None}
    topo = draw(gen.g1_nodes(3, 8, default_on_edge=0.15, p_const=0.2))  # incl. data outputs whose produced value is None / falsy
    n = len(topo)
    nsig = draw(st.integers(1, 3))
    for si in range(nsig):
        pi = draw(st.integers(0, n - 2))
        sname = f"sig{si}"
        kindp = draw(st.sampled_from(["func", "func", "interrupt", "data"]))
        if kindp == "data":
            # prefer a producer whose awaited output may also carry a fallback binding (see bind_waited below)
            pn0 = {o for x in topo for o in x["outs"]}
            fb = [i for i in range(n - 1) if len(topo[i]["outs"]) == 1 and any(q in pn0 and q not in topo[i]["defaults"] for q in topo[i]["params"])]
            if fb and prob(draw, 0.7):
                pi = draw(st.sampled_from(fb))
        if kindp == "data" and topo[pi]["outs"]:
            sname = topo[pi]["outs"][0]  # wait on a data name
        else:
            topo[pi].setdefault("emit", []).append(sname)
            produced_names = {o for x in topo for o in x["outs"]}
            if kindp == "interrupt" and topo[pi]["outs"] and topo[pi]["k"] == "func" and not any(p in produced_names for p in topo[pi]["defaults"]):
                any_edge_default = any(p in produced_names for x in topo for p in x["defaults"])  # a re-running ancestor re-pauses
                topo[pi].update({"k": "interrupt", "mode": "auto" if any_edge_default else draw(st.sampled_from(["auto", "pause"])), "answer": ["ans", topo[pi]["name"]] if len(topo[pi]["outs"]) == 1 else {o: ["ans", o] for o in topo[pi]["outs"]}})
        for _ in range(draw(st.integers(1, 3))):
            wi = draw(st.integers(pi + 1, n - 1))
            w = topo[wi]
            if sname in w["params"] or sname in w.get("wait_for", []) or sname in w.get("emit", []):
                continue
            w.setdefault("wait_for", []).append(sname)
    # a function node's signal may be RENAMED through with_outputs; its waiters wait for the new name
    for x in topo:
        if x.get("emit") and x["k"] == "func" and prob(draw, 0.3):
            m = {o: o + "_r" for o in x["emit"]}
            x["renames"] = [{"kind": "outputs", "map": m}]
            for w in topo:
                if w.get("wait_for"):
                    w["wait_for"] = [m.get(q, q) for q in w["wait_for"]]
    nodes = list(topo)
    # an emitting gate with a waiter
    if prob(draw, 0.3):
        waiting = [x["name"] for x in topo if x.get("wait_for")]
        # (preferably a node that itself waits for a signal: being routed to does not exempt it from waiting for a fresh one)
        t = draw(st.sampled_from(waiting)) if waiting and prob(draw, 0.6) else draw(st.sampled_from([x["name"] for x in topo]))
        if draw(st.booleans()):
            nodes.append({"k": "ifelse", "name": "gsig", "params": [], "defaults": {}, "t": t, "f": "END", "table": [True], "default_open": True, "emit": ["gs"]})
        else:
            # a multi-way gate whose decision may be None (no target, no fallback) or END: it has still completed, so its signal is produced
            nodes.append({"k": "func", "name": "gtarget", "params": [], "defaults": {}, "outs": []})
            nodes.append({"k": "route", "name": "gsig", "params": [], "defaults": {}, "targets": ["gtarget", "END"], "fallback": None, "multi": False,
                          "table": [draw(st.sampled_from([None, None, "gtarget", "END"]))], "default_open": True, "emit": ["gs"]})
        cands = [x for x in topo if x["name"] != t]
        if cands:
            w = draw(st.sampled_from(cands))
            w.setdefault("wait_for", []).append("gs")
    cache_emitters = prob(draw, 0.4)
    if cache_emitters:
        for x in topo:
            if x.get("emit") and x["k"] == "func":
                x["cache"] = True
    em = [x["name"] for x in topo if x.get("emit") and x["k"] == "func"]
    produced = {o for x in topo for o in x["outs"]}
    # (the run-time validator only accepts a fallback for an internal name whose producer cannot start from the seed values alone
    # and has no other consumed output: single-output producers with an upstream-fed, undefaulted parameter)
    okprod = {x["outs"][0] for x in topo if len(x["outs"]) == 1 and any(q in produced and q not in x["defaults"] for q in x["params"])}
    data_waited = sorted({w for x in topo for w in x.get("wait_for", []) if w in okprod})
    bind_waited = draw(st.sampled_from(data_waited)) if data_waited and not any(x["k"] == "interrupt" for x in topo) and prob(draw, 0.5) else None
    return {"part": "A", "bind_waited": bind_waited, "topo": topo, "nodes": draw(gen.permuted(nodes)), "sched": draw(st.lists(st.integers(0, 7), max_size=40)), "cache_emitters": cache_emitters,
            "perms": [draw(st.permutations(list(range(len(nodes))))) for _ in range(2)],
            "entry_emitter": draw(st.sampled_from(em)) if em and prob(draw, 0.5) else None}


def strategy(tier):
    return _case(tier)


def _emit(n):
    """The signal names a node emits as the rest of the graph sees them (after with_outputs renames of the signal)."""
    m = {}
    for st_ in n.get("renames", []):
        if st_.get("kind") == "outputs":
            m.update(st_["map"])
    return [m.get(o, o) for o in n.get("emit", [])]


def _steps(events):
    """Assign a superstep index to every top-level node event (async observation: all starts of a step precede its ends)."""
    from hypergraph.events.types import NodeEndEvent, NodeErrorEvent, NodeStartEvent, RunStartEvent

    top = None
    step = -1
    ended = True
    out = []
    for e in events:
        if isinstance(e, RunStartEvent) and top is None:
            top = e.run_id
        if getattr(e, "run_id", None) != top:
            continue
        if isinstance(e, NodeStartEvent):
            if ended:
                step += 1
                ended = False
            out.append(("start", e.node_name, step))
        elif isinstance(e, (NodeEndEvent, NodeErrorEvent)):
            ended = True
            out.append(("end" if isinstance(e, NodeEndEvent) else "error", e.node_name, step))
    return out


def monitor(tag, events, nodes, with_steps, stats, supplied=()):
    """Safety: each start of a waiter is preceded, since its previous start, by a completed production of every awaited name."""
    producers = {}
    for n in nodes:
        for o in n.get("outs", []) + _emit(n):
            producers.setdefault(o, set()).add(n["name"])
    waiters = {n["name"]: list(n.get("wait_for", [])) for n in nodes if n.get("wait_for")}
    # a name the caller supplied (the answer to a paused interrupt) exists from the start of that run: the human produced it
    produced_since = {w: {s: (s in supplied) for s in ss} for w, ss in waiters.items()}
    prod_step = {}  # name -> step of the latest production
    nprod = {}
    for kind, name, step in _steps(events):
        if kind == "end":
            for o, ps in producers.items():
                if name in ps:
                    nprod[o] = nprod.get(o, 0) + 1
                    prod_step[o] = step
                    for w in produced_since:
                        if o in produced_since[w]:
                            produced_since[w][o] = True
        elif kind == "start" and name in waiters:
            for s in waiters[name]:
                if not produced_since[name][s]:
                    raise Violation("c17.started_without_fresh_signal", f"[{tag}] waiter {name} started although {s!r} has not been produced since its previous start (awaits {waiters[name]})",
                                    multi=len(waiters[name]) > 1)
                if with_steps and prod_step.get(s) == step:
                    raise Violation("c17.same_step_as_producer", f"[{tag}] waiter {name} started in superstep {step}, the step in which {s!r} was produced")
            stats["waiter_starts"] += 1
            if any(nprod.get(s, 0) >= 2 for s in waiters[name]):
                stats["rearmed"] += 1
            produced_since[name] = {s: False for s in waiters[name]}
    if with_steps:
        by_step: dict = {}
        for kind, name, step in _steps(events):
            if kind == "start":
                by_step.setdefault(step, []).append(name)
        for step, names in by_step.items():
            for w in names:
                for sname in waiters.get(w, []):
                    co = [p for p in names if p != w and p in producers.get(sname, ())]
                    if co:
                        raise Violation("c17.same_step_as_producer", f"[{tag}] waiter {w} and {co[0]}, a producer of {sname!r}, ran in the same superstep {step}: {names}")
    return nprod


def _part_a(case, ev):
    topo, nodes = case["topo"], case["nodes"]
    labels = {"part:A"}
    prod = ref.producers(topo)
    pure = list(dict.fromkeys(p for n in topo for p in n["params"] if p not in prod))
    vals = {p: ("in", p, 0) for p in pure if not any(p in n.get("defaults", {}) for n in topo)}
    answers = {n["name"]: ({o: ("ans", o) for o in n["outs"]} if len(n["outs"]) > 1 else {n["outs"][0]: ("ans", n["name"])}) for n in topo if n["k"] == "interrupt"}
    env, args = ref.eval_dag(topo, vals, {}, answers=answers)
    # a waiter runs only if a producer of every awaited name runs
    emitters = {}
    for n in nodes:
        for o in _emit(n) + n.get("outs", []):
            emitters.setdefault(o, []).append(n["name"])
    runs = {n["name"] for n in topo if args.get(n["name"]) is not None} | {"gsig"}
    changed = True
    while changed:
        changed = False
        for n in topo:
            if n["name"] in runs:
                if any(not any(e in runs for e in emitters.get(w, [])) for w in n.get("wait_for", [])) or any(p in prod and prod[p]["name"] not in runs and p not in vals and p not in n.get("defaults", {}) for p in n["params"]):
                    runs.discard(n["name"])
                    changed = True
    expect = {k: v for k, v in env.items() if prod[k]["name"] in runs}
    stats = {"waiter_starts": 0, "rearmed": 0}
    has_interrupt = any(n["k"] == "interrupt" for n in topo)
    edge_defaults = any(p in prod for n in topo for p in n.get("defaults", {}))
    if edge_defaults:
        labels.add("default_on_edge")
    gextra, rkw = {}, {}
    if case.get("bind_waited"):
        # the awaited DATA name also carries a graph-level binding (a fallback for its consumers, who may start early with it);
        # a binding is not a production: the waiter still starts only after a producer of the name has completed
        gextra = {"bind": {case["bind_waited"]: ["fallback", case["bind_waited"]]}}
        rkw = {"on_internal_override": "ignore"}
        edge_defaults = True
        labels.add("awaited_data_name_is_bound")
    from hypergraph import AsyncRunner, SyncRunner
    from hypergraph.cache import InMemoryCache

    plan = [("sync", 0), ("async", 0)]
    if case.get("cache_emitters"):
        plan = [("sync", 0), ("sync", 1), ("async", 0), ("async", 1)]  # second run on the same runner: emitters are cache hits
        labels.add("cached_emitters_second_run")
    shared = {"sync": SyncRunner(cache=InMemoryCache()), "async": AsyncRunner(cache=InMemoryCache())}
    for runner, rep in plan:
        if runner == "sync" and has_interrupt:
            continue
        ctx = Ctx()
        g = make_graph(ctx, {"nodes": nodes, **gextra}, "async" if runner == "async" else "sync")
        tag = f"{runner} DAG run {rep}" + (f" bind({case['bind_waited']})" if gextra else "")
        run_vals = dict(vals)
        for attempt in range(4):
            if runner == "sync":
                rec = Recorder()
                out = run_sync(g, run_vals, runner=shared["sync"], event_processors=[rec], **rkw)
                events = rec.events
            else:
                out, sched = run_scheduled(ctx, g, run_vals, case["sched"], runner=shared["async"], **rkw)
                events = sched.hold.events
                if out.status == "deadlock":
                    raise Violation("c17.deadlock", f"[{tag}] {out.error}")
            if gextra and out.status == "raised" and isinstance(out.error, ValueError) and "Invalid internal override configuration" in str(out.error):
                ev.discard("fallback_binding_rejected_by_validator")
                return
            if out.status != "paused":
                break
            # a pausing interrupt that emits: answer it; the resumed run must still produce its signal
            pn = next(n for n in topo if n["name"] == out.pause.node_name)
            for o, key in out.pause.response_keys.items():
                run_vals[key] = answers[pn["name"]][o]
            labels.add("paused_emitter_resumed")
            ctx.reset()
        if out.status != "completed":
            raise Violation("c17.run_failed", f"[{tag}] {out.brief()}")
        monitor(tag, events, nodes, with_steps=(runner == "async"), stats=stats, supplied=set(run_vals) - set(vals))
        # With a signature default on an upstream-fed parameter a node may run early; a waiter downstream of it is then
        # legitimately NOT re-armed when the value changes (it starts again only once its signal is produced again), so the
        # dependency-order values are only demanded for programs without such defaults. The safety monitor and the
        # node-order differential below apply to all programs.
        if edge_defaults:
            continue
        if out.values != expect:
            diff = {k: (J(out.values.get(k, "<absent>")), J(expect.get(k, "<absent>"))) for k in set(out.values) | set(expect) if out.values.get(k, "<absent>") != expect.get(k, "<absent>")}
            raise Violation("c17.values", f"[{tag}] (got, expected) {diff}", missing=any(k not in out.values for k in expect))
        started = {e.node_name for e in events if type(e).__name__ == "NodeStartEvent"}
        for n in topo:
            if n["name"] in runs and n.get("wait_for") and n["name"] not in started:
                raise Violation("c17.waiter_never_ran", f"[{tag}] waiter {n['name']} never ran although {n['wait_for']} were produced and its inputs exist", cached=bool(case.get("cache_emitters")))
    # node-list order must not matter (output and signal names are unique): same values, same invocations, same safety
    if not has_interrupt:
        from ..observe import call_multiset

        base_ctx = Ctx()
        base_out = run_sync(make_graph(base_ctx, {"nodes": nodes}, "sync"), vals)
        for perm in case.get("perms", []):
            pn = [nodes[i] for i in perm]
            c2 = Ctx()
            rec = Recorder()
            o2 = run_sync(make_graph(c2, {"nodes": pn}, "sync"), vals, event_processors=[rec])
            if o2.status != base_out.status or o2.values != base_out.values or call_multiset(c2.log) != call_multiset(base_ctx.log):
                raise Violation("c17.node_order", f"node order {perm}: {o2.brief()} with calls {sorted(map(repr, c2.log))} vs {base_out.brief()} with calls {sorted(map(repr, base_ctx.log))}")
            monitor(f"sync DAG order {perm}", rec.events, pn, with_steps=False, stats=stats)
        labels.add("permuted_orders")
    # the same under an entry point placed on an emitter: its waiters are downstream of it through the ordering edge alone
    if case.get("entry_emitter") and not has_interrupt and not edge_defaults:
        _entry_variant(case, topo, nodes, vals, prod, emitters, stats, labels)
    multi = any(len(n.get("wait_for", [])) >= 2 for n in nodes)
    if multi:
        labels.add("waiter_on_two_names")
    if any(n["k"] == "interrupt" for n in topo):
        labels.add("interrupt_emitter")
    if any(n["name"] == "gsig" for n in nodes):
        labels.add("gate_emitter")
    ev.count("waiter_starts", stats["waiter_starts"])
    ev.case(case, multi or stats["rearmed"] > 0, sorted(labels))


def _entry_variant(case, topo, nodes, vals, prod, emitters, stats, labels):
    e = case["entry_emitter"]
    active = set(ref.descendants(topo, {e})) | {e}
    changed = True
    while changed:
        changed = False
        for n in topo:
            if n["name"] not in active and any(any(x in active for x in emitters.get(w, [])) for w in n.get("wait_for", [])):
                active.add(n["name"])
                active |= set(ref.descendants(topo, {n["name"]}))
                changed = True
    vals2 = dict(vals)
    for n in topo:
        if n["name"] in active:
            for p in n["params"]:
                if p in prod and prod[p]["name"] not in active:
                    vals2[p] = ("up", p)
    env, args = ref.eval_dag(topo, vals2, {}, active=active)
    runs = {n["name"] for n in topo if n["name"] in active and args.get(n["name"]) is not None}
    changed = True
    while changed:
        changed = False
        for n in topo:
            if n["name"] in runs:
                if any(not any(x in runs for x in emitters.get(w, [])) for w in n.get("wait_for", [])) or any(
                        p in prod and prod[p]["name"] in active and prod[p]["name"] not in runs and p not in vals2 for p in n["params"]):
                    runs.discard(n["name"])
                    changed = True
    for runner in ("sync", "async"):
        ctx = Ctx()
        g = make_graph(ctx, {"nodes": nodes}, "async" if runner == "async" else "sync").with_entrypoint(e)
        tag = f"{runner} DAG entry={e}"
        if runner == "sync":
            rec = Recorder()
            out = run_sync(g, vals2, event_processors=[rec], on_internal_override="ignore")
            events = rec.events
        else:
            out, sched = run_scheduled(ctx, g, vals2, case["sched"], on_internal_override="ignore")
            events = sched.hold.events
        if out.status != "completed":
            raise Violation("c17.run_failed", f"[{tag}] {out.brief()}", entry=True)
        started = {x.node_name for x in events if type(x).__name__ == "NodeStartEvent"}
        for n in topo:
            if n["name"] in runs and n.get("wait_for") and n["name"] not in started:
                raise Violation("c17.waiter_never_ran", f"[{tag}] waiter {n['name']} never ran although {n['wait_for']} were produced inside the entry point's scope and its inputs exist", entry=True)
        monitor(tag, events, nodes, with_steps=(runner == "async"), stats=stats, supplied=set(vals2) - set(vals))
    if any(n.get("wait_for") and n["name"] in runs and not (set(n["params"]) & {o for o in prod if prod[o]["name"] == e}) for n in topo):
        labels.add("entry_on_emitter_with_ordering_only_waiter")


def _part_b(case, ev):
    L = case["loop"]
    gspec = loop_graph_spec(L, case["order"])
    env, counts, traj, iters = eval_loop(L)
    vals = loop_values(L)
    labels = {"part:B", f"form:{L['form']}"}
    stats = {"waiter_starts": 0, "rearmed": 0}
    from hypergraph import AsyncRunner, SyncRunner
    from hypergraph.cache import InMemoryCache

    if case.get("cache_body"):
        # emitting body nodes are cached and the loop is run twice on the same runner: a cache hit must still emit
        gspec = {**gspec, "nodes": [({**n, "cache": True} if n["k"] == "func" and n.get("emit") else n) for n in gspec["nodes"]]}
        labels.add("cached_emitters_second_run")
    side_outs = set()
    if case.get("datawait"):
        m_ = case["datawait"]
        side = [{"k": "func", "name": "ep", "params": ["i"], "defaults": {}, "outs": ["epoch"], "expr": f"i // {m_}"},
                {"k": "func", "name": "cfgn", "params": ["epoch"], "defaults": {}, "outs": ["cfg"], "expr": "('cfg', epoch)"},
                {"k": "func", "name": "snap", "params": ["i"], "defaults": {}, "outs": ["snapv"], "wait_for": ["cfg"], "expr": "('snap', i)"}]
        gspec = {**gspec, "nodes": gspec["nodes"] + side}
        side_outs = {"epoch", "cfg", "snapv"}
        labels.add("waiter_on_a_data_name_in_a_cycle")
    flat_nodes = gspec["nodes"]
    shared = {"sync": SyncRunner(cache=InMemoryCache()), "async": AsyncRunner(cache=InMemoryCache())}
    plan = [("sync", 0), ("async", 0)] + ([("sync", 1), ("async", 1)] if case.get("cache_body") else [])
    for runner, rep in plan:
        ctx = Ctx()
        g = make_graph(ctx, gspec, "async" if runner == "async" else "sync")
        kw = {"entrypoint": "b0"} if len(g.inputs.entrypoints) > 1 and "b0" in g.inputs.entrypoints else {}
        tag = f"{runner} loop {L['form']} run {rep}"
        if runner == "sync":
            rec = Recorder()
            out = run_sync(g, vals, runner=shared["sync"], event_processors=[rec], **kw)
            events = rec.events
        else:
            out, sched = run_scheduled(ctx, g, vals, case["sched"], runner=shared["async"], **kw)
            events = sched.hold.events
            if out.status == "deadlock":
                raise Violation("c17.deadlock", f"[{tag}] {out.error}")
        if out.status != "completed":
            raise Violation("c17.run_failed", f"[{tag}] {out.brief()} loop={J(L)}")
        monitor(tag, events, flat_nodes, with_steps=(runner == "async"), stats=stats)
        got_vals = {k: v for k, v in out.values.items() if k not in side_outs}
        if got_vals != env:
            diff = {k: (J(got_vals.get(k, "<absent>")), J(env.get(k, "<absent>"))) for k in set(got_vals) | set(env) if got_vals.get(k, "<absent>") != env.get(k, "<absent>")}
            raise Violation("c17.loop_values", f"[{tag}] the signal-synchronised loop ended with (got, expected) {diff}; loop={J(L)}", stalled=any(isinstance(v, int) and v < env.get(k, 0) for k, v in out.values.items() if isinstance(env.get(k), int)))
        starts = {}
        for e in events:
            if type(e).__name__ == "NodeStartEvent":
                starts[e.node_name] = starts.get(e.node_name, 0) + 1
        for name, want in counts.items():
            got = starts.get(name, 0)  # executions incl. those served from the cache
            if got != want:
                raise Violation("c17.loop_count", f"[{tag}] {name} ran {got} times, the sequential loop {want}; loop={J(L)}", more=got > want)
    ev.count("waiter_starts", stats["waiter_starts"])
    ev.case(case, stats["rearmed"] > 0 or L["form"] == "waitlast", sorted(labels))


def check_case(case, ev):
    if case["part"] == "A":
        _part_a(case, ev)
    else:
        _part_b(case, ev)
