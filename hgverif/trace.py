"""Event-stream oracles shared by C12 (span tree) and C13 (observer isolation)."""
from __future__ import annotations

from . import use_repo

use_repo()

from hypergraph.events.types import (  # noqa: E402
    CacheHitEvent,
    NodeEndEvent,
    NodeErrorEvent,
    NodeStartEvent,
    RouteDecisionEvent,
    RunEndEvent,
    RunStartEvent,
)

from .core import Violation  # noqa: E402


def _status(e):
    s = getattr(e, "status", None)
    return getattr(s, "value", s)


def check_span_tree(events, shutdowns, tag, *, observed_failed=None, result_status_by_run=None, wrapper_graph=None, allow_open=False):
    """Well-nestedness of one top-level call's event stream.

    observed_failed: what the caller of the top-level call saw (True = exception or FAILED result); None = do not check.
    result_status_by_run: {run_id: 'completed'|'failed'} for RunResults the caller holds (map items, top-level run).
    wrapper_graph: {graph node name: inner graph name} - a nested run must be parented to a node that wraps its graph.
    """
    def bad(kind, msg, **sig):
        raise Violation("c12." + kind, f"[{tag}] {msg}", **sig)

    if not events:
        bad("no_events", "a terminated call delivered no events")
    first, last = events[0], events[-1]
    if not isinstance(first, RunStartEvent) or first.parent_span_id is not None:
        bad("first_event", f"first event is {type(first).__name__} parent={getattr(first, 'parent_span_id', None)}, expected the top-level RunStart")
    if not allow_open:
        if not isinstance(last, RunEndEvent) or last.span_id != first.span_id:
            bad("last_event", f"last event is {type(last).__name__}({getattr(last, 'graph_name', '')}), expected the top-level RunEnd")
        if observed_failed is not None and (_status(last) == "failed") != observed_failed:
            bad("top_status", f"top-level RunEnd status={_status(last)} but the caller observed {'a failure' if observed_failed else 'success'}", reported=_status(last))
    open_runs: dict = {}
    open_nodes: dict = {}
    closed: set = set()
    run_start: dict = {}
    ended_runs: dict = {}
    for idx, e in enumerate(events):
        if isinstance(e, RunStartEvent):
            if e.span_id in open_runs or e.span_id in closed:
                bad("duplicate_span", f"RunStart re-uses span at #{idx}")
            if e.run_id in run_start:
                bad("duplicate_run_start", f"second RunStart for run {e.run_id} at #{idx}")
            run_start[e.run_id] = e
            par = e.parent_span_id
            if idx > 0 and par is None:
                bad("second_root", f"RunStart without parent at #{idx} ({e.graph_name})")
            if par is not None:
                if par in open_nodes:
                    pn = open_nodes[par]
                    if wrapper_graph is not None and not e.is_map:
                        want = wrapper_graph.get(pn.node_name)
                        if want is not None and (e.graph_name or None) != want:
                            bad("wrong_parent_node", f"nested run of graph {e.graph_name!r} at #{idx} is parented to node {pn.node_name!r}, which wraps {want!r}")
                elif par in open_runs:
                    if not open_runs[par].is_map:
                        bad("run_parented_to_plain_run", f"RunStart at #{idx} parented to a non-map run")
                else:
                    bad("parent_not_open", f"RunStart({e.graph_name}) at #{idx}: parent span is not an open node or map run")
            open_runs[e.span_id] = e
        elif isinstance(e, RunEndEvent):
            if e.span_id not in open_runs:
                bad("run_end_without_start", f"RunEnd({e.graph_name}, {_status(e)}) at #{idx} closes no open run", status=_status(e))
            s = open_runs[e.span_id]
            if s.run_id != e.run_id or s.parent_span_id != e.parent_span_id:
                bad("run_end_mismatch", f"RunEnd at #{idx} does not match its RunStart (run_id/parent)")
            for n in open_nodes.values():
                if n.parent_span_id == e.span_id:
                    bad("run_closed_before_node", f"run {e.graph_name} closed at #{idx} while node {n.node_name} is open")
            for r in open_runs.values():
                if r.parent_span_id == e.span_id:
                    bad("run_closed_before_child_run", f"run closed at #{idx} while a child run is open")
            del open_runs[e.span_id]
            closed.add(e.span_id)
            ended_runs[e.run_id] = _status(e)
        elif isinstance(e, NodeStartEvent):
            if e.parent_span_id not in open_runs:
                bad("node_outside_run", f"NodeStart({e.node_name}) at #{idx}: its run is not open")
            elif open_runs[e.parent_span_id].run_id != e.run_id:
                bad("node_run_id", f"NodeStart({e.node_name}) at #{idx}: run_id does not match the parent run")
            if e.span_id in open_nodes or e.span_id in closed:
                bad("duplicate_span", f"NodeStart re-uses span at #{idx}")
            open_nodes[e.span_id] = e
        elif isinstance(e, (NodeEndEvent, NodeErrorEvent)):
            if e.span_id not in open_nodes:
                bad("node_end_without_start", f"{type(e).__name__}({e.node_name}) at #{idx} closes no open node")
            s = open_nodes.pop(e.span_id)
            closed.add(e.span_id)
            if s.node_name != e.node_name or s.parent_span_id != e.parent_span_id or s.run_id != e.run_id:
                bad("node_end_mismatch", f"{type(e).__name__}({e.node_name}) at #{idx} does not match its NodeStart")
            for r in open_runs.values():
                if r.parent_span_id == e.span_id:
                    bad("node_closed_before_child_run", f"node {e.node_name} closed at #{idx} while its nested run is open")
        elif isinstance(e, CacheHitEvent):
            if e.span_id not in open_nodes:
                bad("cache_hit_outside_node", f"CacheHit({e.node_name}) at #{idx} outside an open node")
            elif open_nodes[e.span_id].node_name != e.node_name or open_nodes[e.span_id].run_id != e.run_id:
                bad("cache_hit_wrong_node", f"CacheHit({e.node_name}) at #{idx} carries the span of {open_nodes[e.span_id].node_name}")
            nxt = next((x for x in events[idx + 1:] if getattr(x, "span_id", None) == e.span_id), None)
            if not isinstance(nxt, NodeEndEvent) or not nxt.cached:
                bad("cache_hit_not_followed_by_cached_end", f"CacheHit({e.node_name}) at #{idx} is not followed by NodeEnd(cached=True)")
        elif isinstance(e, RouteDecisionEvent):
            if e.parent_span_id not in open_runs:
                bad("route_decision_outside_run", f"RouteDecision({e.node_name}) at #{idx} outside an open run")
            elif not any(n.node_name == e.node_name and n.run_id == e.run_id for n in open_nodes.values()):
                bad("route_decision_outside_gate", f"RouteDecision({e.node_name}) at #{idx} while that gate is not open")
    if not allow_open and (open_runs or open_nodes):
        bad("left_open", f"left open: runs={[r.graph_name for r in open_runs.values()]} nodes={[n.node_name for n in open_nodes.values()]}")
    if shutdowns is not None and shutdowns != 1:
        bad("shutdown_count", f"shutdown called {shutdowns} times", count=shutdowns)
    if result_status_by_run:
        for rid, st in result_status_by_run.items():
            if rid in ended_runs and ended_runs[rid] != st:
                bad("run_status", f"RunEnd of run {rid} says {ended_runs[rid]} but the caller's RunResult says {st}", reported=ended_runs[rid])
            if rid not in ended_runs and rid in run_start:
                bad("run_never_ended", f"run {rid} has a RunStart but no RunEnd")
    return {"runs": len(run_start), "max_depth": None}


def normalise(events):
    """Order-preserving normal form of a stream for equality between observers (ids replaced by structural positions)."""
    ids: dict = {}

    def sid(x):
        if x is None:
            return None
        return ids.setdefault(x, len(ids))

    out = []
    for e in events:
        out.append((type(e).__name__, sid(getattr(e, "span_id", None)), sid(getattr(e, "parent_span_id", None)), getattr(e, "node_name", None),
                    getattr(e, "graph_name", None), _status(e), repr(getattr(e, "decision", None)), getattr(e, "cached", None), getattr(e, "is_map", None)))
    return out


def tree_form(events):
    """Order-insensitive normal form: multiset of (kind, names, status, decision, cached, path of names to the root)."""
    by_span = {}
    for e in events:
        if isinstance(e, (RunStartEvent, NodeStartEvent)):
            by_span[e.span_id] = e

    def path(e):
        p = []
        cur = getattr(e, "parent_span_id", None)
        guard = 0
        while cur is not None and cur in by_span and guard < 50:
            x = by_span[cur]
            p.append(getattr(x, "node_name", None) or ("run:" + str(getattr(x, "graph_name", None))))
            cur = x.parent_span_id
            guard += 1
        return tuple(p)

    items = []
    for e in events:
        items.append(repr((type(e).__name__, getattr(e, "node_name", None), getattr(e, "graph_name", None), _status(e), repr(getattr(e, "decision", None)),
                           getattr(e, "cached", None), path(e))))
    return sorted(items)
