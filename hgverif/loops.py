"""G3 - structured gate-driven loops with a sequential meaning, and their reference evaluator (DESIGN.md 3.2/3.3).

Loop spec L (JSON):
  k          body chain length 1..4:  b0(i) -> t0, b1(t0) -> t1, ..., b{k-1}(t{k-2}[, step]) -> i [, go]
  form       "while"   gate reads the carried variable i (runnable at entry, decides before the body)
             "dowhile" gate reads `go`, produced by the last body node (needs default_open=True)
             "signal"  gate reads i but waits for the end-of-iteration signal `tick` emitted by the last body node
  gate       "ifelse" | "route";  exit: "END" | "node" (node `done(i) -> res`);  dopen: default_open of the gate (while only)
  limit, step, start   ints;  limit_input / step_input: the value is a loop-invariant graph input instead of a constant
  acc        add the ungated self-accumulating pattern  nxt(i) -> item ; acc(acc, item) -> acc
  nested     wrap the loop in a GraphNode; outer graph computes `limit` and consumes the final i
  entry      index of the body node used as entry point (while form only; 0 = normal entry)
"""
from __future__ import annotations

from collections import Counter


def limit_expr(L):
    return "limit" if L.get("limit_input") or L.get("nested") else str(L["limit"])


def loop_nodes(L):
    k = L["k"]
    form = L["form"]
    lim = limit_expr(L)
    lim_in = ["limit"] if lim == "limit" else []
    stepexpr = "step" if L.get("step_input") else str(L["step"])
    nodes = []
    if form == "chat":
        # the documented "shared outputs in a cycle" pattern: two accumulators write `messages`, ordered by emit/wait_for
        lim2 = limit_expr(L)
        stop = "done" if L["exit"] == "node" else "END"
        nodes += [
            {"k": "func", "name": "gq", "params": ["messages"], "defaults": {}, "outs": ["query"], "expr": "('q', len(messages))"},
            {"k": "func", "name": "aq", "params": ["messages", "query"], "defaults": {}, "outs": ["messages"], "emit": ["query_done"], "expr": "messages + (query,)"},
            {"k": "func", "name": "gr", "params": ["messages"], "defaults": {}, "outs": ["response"], "expr": "('r', len(messages))"},
            {"k": "func", "name": "ar", "params": ["messages", "response"], "defaults": {}, "outs": ["messages"], "wait_for": ["query_done"], "expr": "messages + (response,)"},
        ]
        g = {"name": "g", "defaults": {}, "default_open": True, "params": ["messages"] + (["limit"] if lim2 == "limit" else [])}
        cond = f"len(messages) < {lim2}"
        if L["gate"] == "ifelse":
            g.update({"k": "ifelse", "t": "gq", "f": stop, "expr": cond})
        else:
            g.update({"k": "route", "targets": ["gq", stop], "fallback": None, "multi": False, "expr": f"'gq' if {cond} else '{stop}'"})
        nodes.append(g)
        if L["exit"] == "node":
            nodes.append({"k": "func", "name": "done", "params": ["messages"], "defaults": {}, "outs": ["res"], "expr": "('done', len(messages))"})
        return nodes
    if form == "selfsignal":
        # the gate's target accumulates into the carried variable itself; a later body node (which also runs once at
        # entry, its inputs being supplied) emits the end-of-iteration signal the gate waits for
        nodes.append({"k": "func", "name": "b0", "params": ["i"] + (["step"] if L.get("step_input") else []), "defaults": {}, "outs": ["i"], "expr": f"i + {stepexpr}",
                      # (long form only) the gate's target itself also waits for the end-of-iteration signal: being routed to does not
                      # exempt it from waiting for a FRESH one
                      **({"wait_for": ["tick"]} if L.get("b0_waits") and max(2, k) > 2 else {})})
        # k == 2: b1(i, tot) accumulates and emits the signal one superstep after i changed; k > 2: pass-through nodes in between, so
        # the gate's data input changes SEVERAL supersteps before the signal it waits for is produced again
        src = "i"
        for j in range(1, max(2, k) - 1):
            nodes.append({"k": "func", "name": f"b{j}", "params": [src], "defaults": {}, "outs": [f"t{j}"], "expr": f"('t', {j}, {'i' if src == 'i' else src + '[2]'})"})
            src = f"t{j}"
        last = max(2, k) - 1
        if L.get("const_emitter") and max(2, k) > 2:
            # the emitter's only data output never changes: each of its emissions is still a new production of the signal
            nodes.append({"k": "func", "name": f"b{last}", "params": [src], "defaults": {}, "outs": ["cst"], "emit": ["tick"], "expr": "('cst',)"})
        else:
            nodes.append({"k": "func", "name": f"b{last}", "params": [src, "tot"], "defaults": {}, "outs": ["tot"], "emit": ["tick"], "expr": f"tot + ({'i' if src == 'i' else src + '[2]'},)"})
        stop = "done" if L["exit"] == "node" else "END"
        # (with pass-through nodes the signal only arrives two or more supersteps after i changed; a default-open target would
        # legitimately start again meanwhile, so the longer form uses a closed gate and is a plain while-loop)
        g = {"name": "g", "defaults": {}, "default_open": max(2, k) <= 2, "params": ["i"] + lim_in, "wait_for": ["tick"]}
        if L.get("gate_free_running") and L.get("b0_waits") and max(2, k) > 2:
            # the gate does not wait: it decides again as soon as i has changed, supersteps before the write-out chain has emitted the
            # signal its TARGET waits for
            g.pop("wait_for")
        cond = f"i < {lim}"
        if L["gate"] == "ifelse":
            g.update({"k": "ifelse", "t": "b0", "f": stop, "expr": cond})
        else:
            g.update({"k": "route", "targets": ["b0", stop], "fallback": None, "multi": False, "expr": f"'b0' if {cond} else '{stop}'"})
        nodes.append(g)
        if L["exit"] == "node":
            nodes.append({"k": "func", "name": "done", "params": ["i"], "defaults": {}, "outs": ["res"], "expr": "('done', i)"})
        return nodes
    waitlast = form == "waitlast"  # last body node reads the FIRST chain value and waits for two signals emitted at different steps
    for j in range(k):
        last = j == k - 1
        src = "i" if j == 0 else f"t{j-1}"
        if waitlast and last:
            src = "t0"
        cur = "i" if j == 0 else f"{src}[2]"
        params = [src]
        n = {"k": "func", "name": f"b{j}", "defaults": {}}
        if form == "signal" and L.get("two_signals") and j == 0:
            n["emit"] = ["early"]  # produced at the START of every iteration; the gate needs it AND the final tick to be fresh
        if waitlast and j == 0:
            n["emit"] = ["s0"]
        if waitlast and j == k - 2:
            n["emit"] = n.get("emit", []) + ["s1"]
        if waitlast and last:
            n["wait_for"] = ["s0", "s1"]
        if last:
            if L.get("step_input"):
                params.append("step")
            e_i = f"{cur} + {stepexpr}"
            if form == "dowhile":
                params += lim_in
                n["outs"] = ["i", "go"]
                n["expr"] = f"({e_i}, ({e_i}) < {lim})"
            else:
                n["outs"] = ["i"]
                n["expr"] = e_i
            if form == "signal":
                n["emit"] = n.get("emit", []) + ["tick"]
        else:
            n["outs"] = [f"t{j}"]
            n["expr"] = f"('t', {j}, {cur})"
        n["params"] = params
        nodes.append(n)
    stop = "done" if L["exit"] == "node" else "END"
    g = {"name": "g", "defaults": {}, "default_open": True if form not in ("while", "waitlast") else bool(L.get("dopen", True))}
    if form == "dowhile":
        g["params"] = ["go"]
        cond = "go"
    else:
        g["params"] = ["i"] + lim_in
        cond = f"i < {lim}"
        if form == "signal":
            g["wait_for"] = ["early", "tick"] if L.get("two_signals") else ["tick"]
    if L["gate"] == "ifelse":
        g.update({"k": "ifelse", "t": "b0", "f": stop, "expr": cond})
    else:
        # stop_none: the route gate ends the loop by deciding None (no target, no fallback) instead of END
        stop_expr = "None" if L.get("stop_none") and stop == "END" else f"'{stop}'"
        g.update({"k": "route", "targets": ["b0", stop], "fallback": None, "multi": False, "expr": f"'b0' if {cond} else {stop_expr}"})
    nodes.append(g)
    if L["exit"] == "node" and L.get("exit_ext"):
        # an exit node that reads nothing of the loop: it is downstream of the body ONLY through the gate's control edge
        nodes.append({"k": "func", "name": "done", "params": ["xd"], "defaults": {}, "outs": ["res"], "expr": "('done', xd)"})
    elif L["exit"] == "node":
        nodes.append({"k": "func", "name": "done", "params": ["i"], "defaults": {}, "outs": ["res"], "expr": "('done', i)"})
    if L.get("nullable"):
        nodes.append({"k": "func", "name": "zf", "params": ["z", "i"], "defaults": {}, "outs": ["z"], "expr": "None if i % 2 == 1 else (z, i)"})
    if L.get("acc"):
        nodes.append({"k": "func", "name": "nxt", "params": ["i"], "defaults": {}, "outs": ["item"], "expr": "('item', i)"})
        nodes.append({"k": "func", "name": "acc", "params": ["acc", "item"], "defaults": {}, "outs": ["acc"], "expr": "acc + (item,)"})
    return nodes


def loop_graph_spec(L, order=None):
    inner = loop_nodes(L)
    if order:
        perm = sorted(range(len(inner)), key=lambda i: (order[i] if i < len(order) else 0, i))
        inner = [inner[i] for i in perm]
    if L.get("pre_entry") and not L.get("nested"):
        # an upstream node that with_entrypoint() excludes: the caller supplies `limit` directly (and x, so the skipped
        # node would be runnable if it were not out of scope)
        pre = {"k": "func", "name": "mk_limit", "params": ["x"], "defaults": {}, "outs": ["limit"], "expr": f"x + {L.get('limit_off', 0)}"}
        # entry_set: any non-empty set of body nodes means the same thing - every node of a cycle is downstream of every other
        return {"nodes": inner + [pre], "entry": list(L.get("entry_set") or ["b0"]), "entry_chain": bool(L.get("entry_chain"))}
    if not L.get("nested"):
        return {"nodes": inner}
    outer = [
        {"k": "func", "name": "mk_limit", "params": ["x"], "defaults": {}, "outs": ["limit"], "expr": f"x + {L.get('limit_off', 0)}"},
        {"k": "graph", "name": "loop", "graph": {"nodes": inner, "name": "loop"}},
        {"k": "func", "name": "fin", "params": ["i"], "defaults": {}, "outs": ["out"], "expr": "('fin', i)"},
    ]
    return {"nodes": outer}


def loop_values(L):
    e = L.get("entry", 0)
    vals = {}
    if e == 0:
        vals["i"] = L["start"]
    else:
        vals[f"t{e-1}"] = ("t", e - 1, L["start"])
    if L.get("step_input"):
        vals["step"] = L["step"]
    if L.get("nested"):
        vals["x"] = L["limit"] - L.get("limit_off", 0)
    elif L.get("limit_input"):
        vals["limit"] = L["limit"]
        if L.get("pre_entry"):
            vals["x"] = L["limit"] - L.get("limit_off", 0) + 100  # would give a different limit if mk_limit ran
    if L.get("acc"):
        vals["acc"] = ()
    if L.get("nullable"):
        vals["z"] = ("seed",)
    if L["form"] == "selfsignal" and not (L.get("const_emitter") and max(2, L["k"]) > 2):
        vals["tot"] = ()
    if L.get("exit_ext") and L["exit"] == "node" and L["form"] not in ("selfsignal", "chat"):
        vals["xd"] = 7
    if L["form"] == "chat":
        vals = {k: v for k, v in vals.items() if k != "i"}
        vals["messages"] = ()
    return vals


def eval_loop(L):
    """Literal sequential execution. Returns (env, body counts, trajectories {var: [values in order]})."""
    k, form, start, step, limit = L["k"], L["form"], L["start"], L["step"], L["limit"]
    e = L.get("entry", 0)
    if form == "chat":
        # limit is even and >= 0: every turn appends one query and one response
        msgs, n = (), 0
        traj = {"messages": [()]}
        env = {}
        while len(msgs) < limit:
            q = ("q", len(msgs))
            # the responder is not ordered after the query accumulator (as in the documented pattern): it and the response
            # accumulator become ready in the same superstep, so the response accumulated in a turn is the one computed from
            # the messages BEFORE that turn's query was appended
            r = ("r", len(msgs))
            msgs += (q,)
            traj["messages"].append(msgs)
            msgs += (r,)
            traj["messages"].append(msgs)
            env["query"] = q
            n += 1
        env["messages"] = msgs
        env["response"] = ("r", len(msgs))  # the ungated responder runs on the initial messages and re-runs on every change
        if L["exit"] == "node":
            env["res"] = ("done", len(msgs))
        return env, Counter({"aq": n, "ar": n, "gq": n}), traj, n
    if form == "selfsignal":
        i, tot, n = start, (start,), 0
        traj = {"i": [start], "tot": [(), (start,)]}
        while True:
            if max(2, k) > 2 and not i < limit:
                break  # closed gate: decides before the first iteration
            i += step
            tot += (i,)
            n += 1
            traj["i"].append(i)
            traj["tot"].append(tot)
            if not i < limit:
                break
        env = {"i": i, "tot": tot}
        if L.get("const_emitter") and max(2, k) > 2:
            env = {"i": i, "cst": ("cst",)}
            traj.pop("tot", None)
            traj["cst"] = [("cst",)]
        for j in range(1, max(2, k) - 1):
            env[f"t{j}"] = ("t", j, i)
            traj[f"t{j}"] = [("t", j, v) for v in traj["i"]]
        if L["exit"] == "node":
            env["res"] = ("done", i)
            traj["res"] = [("done", v) for v in traj["i"]]
        return env, Counter({"b0": n}), traj, n
    counts: Counter = Counter()
    env: dict = {}
    traj: dict = {"i": []}
    state = {"i": start}
    if e == 0:
        traj["i"].append(start)
        env["i"] = start
    else:
        # the caller-supplied entry value is itself a declared output name and stays visible
        env[f"t{e-1}"] = ("t", e - 1, start)
        traj[f"t{e-1}"] = [env[f"t{e-1}"]]

    def body(first=0):
        v = state["i"]
        for j in range(first, k):
            counts[f"b{j}"] += 1
            if j < k - 1:
                env[f"t{j}"] = ("t", j, v)
                traj.setdefault(f"t{j}", []).append(env[f"t{j}"])
        state["i"] = v + step
        env["i"] = state["i"]
        traj["i"].append(state["i"])
        if form == "dowhile":
            env["go"] = state["i"] < limit
            traj.setdefault("go", []).append(env["go"])

    iterations = 0
    if e > 0:
        body(e)
        iterations += 1
    if form in ("while", "waitlast"):
        while state["i"] < limit:
            body()
            iterations += 1
    else:
        body()
        iterations += 1
        while state["i"] < limit:
            body()
            iterations += 1
    if L["exit"] == "node" and L.get("exit_ext"):
        env["res"] = ("done", 7)
        traj["res"] = [("done", 7)]
    elif L["exit"] == "node":
        env["res"] = ("done", state["i"])
        traj["res"] = [("done", v) for v in traj["i"]]
    if L.get("acc"):
        env["item"] = ("item", state["i"])
        env["acc"] = tuple(("item", v) for v in traj["i"])
        traj["item"] = [("item", v) for v in traj["i"]]
        traj["acc"] = [tuple(("item", v) for v in traj["i"][: n + 1]) for n in range(len(traj["i"]))] + [()]
        counts["nxt"] = len(traj["i"])
        counts["acc"] = len(traj["i"])
    if L.get("nullable"):
        z = ("seed",)
        traj["z"] = [z]
        for v in traj["i"]:
            z = None if v % 2 == 1 else (z, v)
            traj["z"].append(z)
        env["z"] = z
        counts["zf"] = len(traj["i"])
    if L.get("pre_entry") and not L.get("nested"):
        env["limit"] = limit  # caller-supplied value of a declared output name stays visible
        traj["limit"] = [limit]
    if L.get("nested"):
        env["limit"] = limit
        env["out"] = ("fin", state["i"])
        traj["limit"] = [limit]
        traj["out"] = [("fin", v) for v in traj["i"]]
    return env, counts, traj, iterations
