"""Running graphs and observing them through the public API only."""
from __future__ import annotations

import asyncio
import warnings
from collections import Counter

from . import use_repo

use_repo()

from hypergraph import AsyncRunner, SyncRunner  # noqa: E402
from hypergraph.events import AsyncEventProcessor, EventProcessor  # noqa: E402

from .build import J  # noqa: E402


class Outcome:
    """Normal form of one run() call."""

    def __init__(self, status, values=None, error=None, pause=None, result=None):
        self.status = status  # "completed" | "failed" | "paused" | "raised"
        self.values = values
        self.error = error
        self.pause = pause
        self.result = result

    def brief(self):
        e = None if self.error is None else f"{type(self.error).__name__}: {str(self.error)[:200]}"
        return {"status": self.status, "values": J(self.values) if self.values is not None else None, "error": e}

    def __repr__(self):
        return f"Outcome({self.brief()})"


class Deadlock(Exception):
    """The event loop went idle (nothing ready, nothing scheduled) while the awaited call had not finished."""


async def _guarded(coro):
    task = asyncio.ensure_future(coro)
    loop = asyncio.get_running_loop()
    while not task.done():
        await asyncio.sleep(0)
        if len(loop._ready) > 0 or loop._scheduled or task.done():
            continue
        task.cancel()
        try:
            await task
        except BaseException:  # noqa: BLE001
            pass
        raise Deadlock("the event loop is idle (nothing runnable, no timer) but the call has not returned")
    return await task


def arun(coro):
    """asyncio.run that turns a hang of the code under test into a Deadlock exception (decided at loop quiescence, not by a clock)."""
    return asyncio.run(_guarded(coro))


def _outcome(res):
    return Outcome(res.status.value, dict(res.values), res.error, res.pause, res)


def run_sync(graph, values, runner=None, **kw) -> Outcome:
    runner = runner or SyncRunner()
    try:
        with warnings.catch_warnings():
            warnings.simplefilter("ignore")
            res = runner.run(graph, dict(values), **kw)
    except Exception as e:  # noqa: BLE001 - outcome is data; the oracle decides what is allowed
        return Outcome("raised", None, e)
    return _outcome(res)


def run_async(graph, values, runner=None, **kw) -> Outcome:
    runner = runner or AsyncRunner()

    async def go():
        return await runner.run(graph, dict(values), **kw)

    try:
        with warnings.catch_warnings():
            warnings.simplefilter("ignore")
            res = arun(go())
    except (Exception, asyncio.CancelledError) as e:  # noqa: BLE001 - a cancellation leaking out of run() is an outcome to judge
        return Outcome("raised", None, e)
    return _outcome(res)


def call_multiset(log):
    from .build import freeze

    return Counter((f, freeze(a)) for f, a in log)  # arguments may hold lists (outputs of mapping nodes)


class Recorder(EventProcessor):
    def __init__(self):
        self.events = []
        self.shutdowns = 0

    def on_event(self, event):
        self.events.append(event)

    def shutdown(self):
        self.shutdowns += 1


class AsyncRecorder(AsyncEventProcessor):
    def __init__(self):
        self.events = []
        self.shutdowns = 0

    def on_event(self, event):  # used when driven by the sync runner
        self.events.append(event)

    async def on_event_async(self, event):
        self.events.append(event)

    def shutdown(self):
        self.shutdowns += 1

    async def shutdown_async(self):
        self.shutdowns += 1
