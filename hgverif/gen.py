"""Hypothesis strategies producing program IR (plain JSON values).  DESIGN.md 3.2."""
from __future__ import annotations

from hypothesis import strategies as st

from . import ref


@st.composite
def g1_nodes(draw, min_nodes=2, max_nodes=7, prefix="n", out_prefix="o", in_prefix="x", p_edge=0.7, allow_no_out=True, default_on_edge=0.2):
    """Acyclic gate-free program: list of func-node specs in a topological order (unique producers)."""
    n = draw(st.integers(min_nodes, max_nodes))
    avail: list[str] = []
    produced: set[str] = set()
    defaults_by_name: dict = {}
    decided: set[str] = set()
    n_inputs = 0
    nodes = []
    for i in range(n):
        name = f"{prefix}{i}"
        k = draw(st.integers(0, 3))
        params: list[str] = []
        for _ in range(k):
            if avail and draw(st.floats(0, 1)) < p_edge:
                p = draw(st.sampled_from(avail))
            else:
                p = f"{in_prefix}{n_inputs}"
                n_inputs += 1
                avail.append(p)
            if p in params:
                continue
            params.append(p)
            if p not in decided:
                decided.add(p)
                prob = default_on_edge if p in produced else 0.35
                if draw(st.floats(0, 1)) < prob:
                    defaults_by_name[p] = ["dflt", p]
        nout = draw(st.sampled_from([0, 1, 1, 1, 2, 3] if allow_no_out else [1, 1, 1, 2, 3]))
        outs = [f"{out_prefix}{i}_{j}" for j in range(nout)]
        params = [p for p in params if p not in defaults_by_name] + [p for p in params if p in defaults_by_name]
        nodes.append({
            "k": "func",
            "name": name,
            "params": params,
            "defaults": {p: defaults_by_name[p] for p in params if p in defaults_by_name},
            "outs": outs,
        })
        for o in outs:
            produced.add(o)
            avail.append(o)
    return nodes


@st.composite
def permuted(draw, nodes):
    order = draw(st.permutations(list(range(len(nodes)))))
    return [nodes[i] for i in order]


@st.composite
def subset(draw, items, p=0.3):
    return [x for x in items if draw(st.floats(0, 1)) < p]


@st.composite
def g1_case(draw, min_nodes=2, max_nodes=7, with_select=True):
    """Program + configuration (bindings, run-time values, optional selection)."""
    topo = draw(g1_nodes(min_nodes, max_nodes))
    nodes = draw(permuted(topo))
    prod = ref.producers(nodes)
    outs = [o for n in topo for o in n["outs"]]
    inputs = []
    for n in topo:
        for p in n["params"]:
            if p not in prod and p not in inputs:
                inputs.append(p)
    bind = {p: ["bound", p] for p in draw(subset(inputs, 0.25))}
    select = None
    if with_select and outs and draw(st.floats(0, 1)) < 0.3:
        k = draw(st.integers(1, min(2, len(outs))))
        select = draw(st.permutations(outs))[:k]
    required, optional, _ = ref.input_spec(nodes, bind, select)
    values = {p: ["in", p, 0] for p in inputs if p in required}
    # optional inputs (defaulted / bound) sometimes overridden at run time; unneeded inputs sometimes supplied
    for p in inputs:
        if p not in values and draw(st.floats(0, 1)) < (0.4 if p in optional else 0.3):
            values[p] = ["in", p, 1]
    return {"nodes": nodes, "bind": bind, "values": values, "select": select}
