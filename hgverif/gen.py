"""Hypothesis strategies producing program IR (plain JSON values).  DESIGN.md 3.2."""
from __future__ import annotations

from hypothesis import strategies as st

from . import ref


def prob(draw, p):
    """Bernoulli(p) draw (st.floats is far from uniform, so thresholds on it are not probabilities)."""
    k = max(0, min(20, round(p * 20)))
    return draw(st.sampled_from([True] * k + [False] * (20 - k))) if 0 < k < 20 else k == 20


@st.composite
def g1_nodes(draw, min_nodes=2, max_nodes=7, prefix="n", out_prefix="o", in_prefix="x", p_edge=0.7, allow_no_out=True, default_on_edge=0.2,
             nested_names=False, p_const=0.0):
    """Acyclic gate-free program: list of func-node specs in a topological order (unique producers).
    nested_names: node names are prefixes of one another (step, step_a, step_a_a, ...) - legal, and a trap for string matching."""
    n = draw(st.integers(min_nodes, max_nodes))
    avail: list[str] = []
    produced: set[str] = set()
    defaults_by_name: dict = {}
    decided: set[str] = set()
    n_inputs = 0
    nodes = []
    for i in range(n):
        name = f"{prefix}{i}" if not nested_names else "step" + "_a" * i
        k = draw(st.integers(0, 3))
        params: list[str] = []
        for _ in range(k):
            if avail and prob(draw, p_edge):
                p = draw(st.sampled_from(avail))
            else:
                p = f"{in_prefix}{n_inputs}"
                n_inputs += 1
                avail.append(p)
            if p in params:
                continue
            params.append(p)
            if p not in decided:
                decided.add(p)
                pr = default_on_edge if p in produced else 0.35
                if prob(draw, pr):
                    defaults_by_name[p] = ["dflt", p]
        nout = draw(st.sampled_from([0, 1, 1, 1, 2, 3] if allow_no_out else [1, 1, 1, 2, 3]))
        outs = [f"{out_prefix}{i}_{j}" for j in range(nout)]
        params = [p for p in params if p not in defaults_by_name] + [p for p in params if p in defaults_by_name]
        spec = {
            "k": "func",
            "name": name,
            "params": params,
            "defaults": {p: defaults_by_name[p] for p in params if p in defaults_by_name},
            "outs": outs,
        }
        if p_const and nout == 1 and prob(draw, p_const):
            # legal output values that are falsy / None, and tuples of length 0, 1, 2 returned for ONE declared output (the value is
            # the tuple itself: nothing is unpacked)
            spec["ret"] = draw(st.sampled_from([None, None, 0, False, "", [], ["solo"], [[]], ["two", "parts"], [None], {"__lazy__": 7}]))
        if prob(draw, 0.15):
            # in the async flavour: a plain `def` that hands back a coroutine (an async function behind an ordinary decorator)
            spec["coro_def"] = True
        nodes.append(spec)
        for o in outs:
            produced.add(o)
            avail.append(o)
    return nodes


@st.composite
def permuted(draw, nodes):
    order = draw(st.permutations(list(range(len(nodes)))))
    return [nodes[i] for i in order]


@st.composite
def subset(draw, items, p=0.3):
    return [x for x in items if prob(draw, p)]


@st.composite
def g1_case(draw, min_nodes=2, max_nodes=7, with_select=True, p_const=0.0):
    """Program + configuration (bindings, run-time values, optional selection)."""
    topo = draw(g1_nodes(min_nodes, max_nodes, p_const=p_const))
    nodes = draw(permuted(topo))
    prod = ref.producers(nodes)
    outs = [o for n in topo for o in n["outs"]]
    inputs = []
    for n in topo:
        for p in n["params"]:
            if p not in prod and p not in inputs:
                inputs.append(p)
    bind = {p: ["bound", p] for p in draw(subset(inputs, 0.25))}
    select = None
    if with_select and outs and prob(draw, 0.3):
        k = draw(st.integers(1, min(2, len(outs))))
        select = draw(st.permutations(outs))[:k]
    required, optional, _ = ref.input_spec(nodes, bind, select)
    values = {p: ["in", p, 0] for p in inputs if p in required}
    # optional inputs (defaulted / bound) sometimes overridden at run time; unneeded inputs sometimes supplied
    for p in inputs:
        if p not in values and prob(draw, 0.4 if p in optional else 0.3):
            values[p] = ["in", p, 1]
    return {"nodes": nodes, "bind": bind, "values": values, "select": select}


# ------------------------------------------------------------------------------------
# G2 - control flow: gates, optional cycle, emit/wait_for, failing nodes
# ------------------------------------------------------------------------------------


def _reorder(node):
    d = node.get("defaults", {})
    node["params"] = [p for p in node["params"] if p not in d] + [p for p in node["params"] if p in d]


def _name_defaults(nodes):
    dd = {}
    for n in nodes:
        for p, v in n.get("defaults", {}).items():
            dd[p] = v
    return dd


def _consumed(nodes):
    return {p for n in nodes for p in n.get("params", [])}


@st.composite
def g2_nodes(draw, max_nodes=6, p_cycle=0.4, p_signal=0.3, p_fail=0.25, min_gates=1, max_gates=3):
    base = draw(g1_nodes(2, max_nodes, nested_names=prob(draw, 0.25)))
    funcs = [n["name"] for n in base]
    prod = ref.producers(base)
    names = []
    for n in base:
        for p in n["params"]:
            if p not in names:
                names.append(p)
        for o in n["outs"]:
            if o not in names:
                names.append(o)
    dd = _name_defaults(base)
    consumed = _consumed(base)
    gates = []
    for gi in range(draw(st.integers(min_gates, max_gates))):
        k = draw(st.integers(0, 2)) if names else 0
        params = []
        for _ in range(k):
            p = draw(st.sampled_from(names))
            if p not in params:
                params.append(p)
        # shared parameters must agree on defaults with the other consumers
        defaults = {p: dd[p] for p in params if p in dd and p in consumed}
        g = {"name": f"g{gi}", "params": params, "defaults": defaults, "default_open": draw(st.booleans())}
        _reorder(g)
        pool = funcs + ["END"]
        if gates and prob(draw, 0.5):
            pool = pool + [x["name"] for x in gates]  # a gate may route to another gate
        if draw(st.booleans()):
            g["k"] = "ifelse"
            t = draw(st.sampled_from(funcs))
            f = draw(st.sampled_from([x for x in pool if x != t]))
            if draw(st.booleans()):
                t, f = f, t
            g["t"], g["f"] = t, f
            g["table"] = draw(st.lists(st.booleans(), min_size=1, max_size=3))
        else:
            g["k"] = "route"
            first = draw(st.sampled_from(funcs))
            rest = draw(st.lists(st.sampled_from(pool), max_size=3))
            targets = list(dict.fromkeys([first] + rest))
            g["targets"] = draw(st.permutations(targets))
            g["multi"] = prob(draw, 0.35)
            if g["multi"]:
                table = []
                for _ in range(draw(st.integers(1, 3))):
                    if prob(draw, 0.1):
                        table.append(None)
                    else:
                        table.append([t for t in draw(st.permutations(g["targets"])) if prob(draw, 0.7)])
                g["table"] = table
                g["fallback"] = None
            else:
                g["fallback"] = draw(st.sampled_from(pool)) if prob(draw, 0.4) else None
                opts = list(g["targets"]) + [None]
                g["table"] = draw(st.lists(st.sampled_from(opts), min_size=1, max_size=3))
        gates.append(g)
    nodes = [dict(n) for n in base] + gates
    labels = set()
    # --- optional cycle: a late node's output takes the name of a graph input of an earlier node
    if prob(draw, p_cycle):
        cands = []
        for li in range(1, len(base)):
            if not base[li]["outs"]:
                continue
            for ei in range(0, li + 1):
                for p in base[ei]["params"]:
                    if p not in prod:
                        cands.append((li, p))
        if cands:
            li, x = draw(st.sampled_from(sorted(set(cands))))
            L = nodes[li]
            o = L["outs"][draw(st.integers(0, len(L["outs"]) - 1))]
            L["outs"] = [x if y == o else y for y in L["outs"]]
            for n in nodes:
                if o in n["params"] and x in n["params"]:
                    n["params"] = [p for p in n["params"] if p != o]
                n["params"] = [x if p == o else p for p in n["params"]]
                dflt = dict(n.get("defaults", {}))
                dflt.pop(o, None)
                dflt.pop(x, None)
                n["defaults"] = dflt
                _reorder(n)
            labels.add("cycle")
    # --- optional ordering signal
    if prob(draw, p_signal) and len(nodes) >= 2:
        pi = draw(st.integers(0, len(nodes) - 1))
        wi = draw(st.integers(0, len(nodes) - 2))
        if wi >= pi:
            wi += 1
        nodes[pi] = {**nodes[pi], "emit": ["sig0"]}
        nodes[wi] = {**nodes[wi], "wait_for": ["sig0"]}
        labels.add("signal")
    # --- optional failing function node
    if prob(draw, p_fail):
        nf = draw(st.sampled_from([1, 1, 2, 2, 3]))
        for fi in draw(st.permutations(list(range(len(base)))))[:nf]:
            nodes[fi] = {**nodes[fi], "fail": draw(st.sampled_from(["always", "always", {"mod": 2, "eq": 0}, {"mod": 3, "eq": 1}]))}
        labels.add("failing_node")
        if nf > 1:
            labels.add("failing_nodes>=2")
    nodes = draw(permuted(nodes))
    return nodes, sorted(labels)


# ------------------------------------------------------------------------------------
# nesting transform (C05, C12, C16, C20): wrap an interval of the topological order (convex by construction)
# ------------------------------------------------------------------------------------


def _rename_node(n, pi):
    m = dict(n)
    m["params"] = [pi.get(p, p) for p in n.get("params", [])]
    m["defaults"] = {pi.get(p, p): v for p, v in n.get("defaults", {}).items()}
    m["outs"] = [pi.get(o, o) for o in n.get("outs", [])]
    return m


@st.composite
def rename_history(draw, mapping, kind, prefix):
    """A history of with_inputs/with_outputs batches realising `mapping` (current -> final), possibly through
    temporary names, with optional identity detours (swap applied twice)."""
    same = sorted(a for a, b in mapping.items() if a == b and a not in set(mapping.values()) - {a})
    mapping = {a: b for a, b in mapping.items() if a != b}
    steps = []
    cur = list(mapping)
    if len(same) >= 2 and prob(draw, 0.3):
        # names that keep their name are exchanged and exchanged back first (every name ends where it started)
        a, b = draw(st.permutations(same))[:2]
        swap = {"kind": kind, "map": {a: b, b: a}}
        steps += [swap, dict(swap)]
    if not mapping:
        return steps
    style = draw(st.sampled_from(["single", "via_temp", "staged"]))
    if style == "single":
        steps.append({"kind": kind, "map": dict(mapping)})
    elif style == "via_temp":
        tmp = {a: f"{prefix}tmp{i}" for i, a in enumerate(cur)}
        steps.append({"kind": kind, "map": tmp})
        steps.append({"kind": kind, "map": {tmp[a]: mapping[a] for a in cur}})
    else:
        # first move a drawn subset to temporaries, then everything to its final name in one parallel batch
        sub = [a for a in cur if draw(st.booleans())]
        tmp = {a: f"{prefix}tmp{i}" for i, a in enumerate(sub)}
        if tmp:
            steps.append({"kind": kind, "map": tmp})
        steps.append({"kind": kind, "map": {tmp.get(a, a): mapping[a] for a in cur}})
    finals = sorted(set(mapping.values()))
    if len(finals) >= 2 and draw(st.booleans()):
        a, b = draw(st.permutations(finals))[:2]
        swap = {"kind": kind, "map": {a: b, b: a}}
        steps += [swap, dict(swap)]
    if draw(st.booleans()):
        # the node is inspected (lazy caches filled) before / between derivations
        at = draw(st.integers(0, len(steps) - 1))
        steps.insert(at, {"kind": "warm"})
    return steps


@st.composite
def nest_spec(draw, topo, depth, bind, level=0, permute_names=True, ext_consumed=frozenset()):
    """Return (outer node list, exposed outputs lost through inner select) for one nesting level over `topo`."""
    n = len(topo)
    a = draw(st.integers(0, n - 1))
    b = draw(st.integers(a + 1, n))
    S = topo[a:b]
    rest_before, rest_after = topo[:a], topo[b:]
    hidden = []
    inactive = []
    outside_consumed = {p for x in rest_before + rest_after for p in x.get("params", [])} | set(ext_consumed)
    if depth > 1 and len(S) >= 2:
        S_nodes, hidden_inner, inactive_inner = draw(nest_spec(S, depth - 1, {}, level + 1, permute_names, frozenset(outside_consumed)))
        hidden += hidden_inner
        inactive += inactive_inner
    else:
        S_nodes = [dict(x) for x in S]
    # names visible on the boundary of S (flat names)
    produced = [o for x in S for o in x.get("outs", []) if o not in hidden]
    consumed_in = []
    for x in S:
        for p in x.get("params", []):
            if p not in consumed_in:
                consumed_in.append(p)
    sprod = {o for x in S for o in x.get("outs", [])}
    inputs = [p for p in consumed_in if p not in sprod]
    names = list(dict.fromkeys(inputs + produced + [o for o in sprod]))
    pi = {}
    if permute_names and len(names) >= 2 and draw(st.booleans()):
        perm = draw(st.permutations(names))
        pi = {x: y for x, y in zip(names, perm)}
    inner_nodes = draw(permuted([_rename_inner(x, pi) for x in S_nodes]))
    # inner select: keep everything consumed outside, drop a drawn subset of the rest
    select = None
    droppable = [o for o in produced if o not in outside_consumed]
    dropped = []
    if droppable and prob(draw, 0.3):
        dropped = [o for o in droppable if draw(st.booleans())]
        if dropped and len(dropped) < len(produced):
            select = [pi.get(o, o) for o in produced if o not in dropped]
            hidden += dropped
        else:
            dropped = []
    if select is None and produced and prob(draw, 0.25):
        # an explicit inner select that names EVERY output (in a drawn order): hides no output, but takes the selection code path
        # (and, like every selection, leaves inner nodes that feed no selected output out of the run)
        select = [pi.get(o, o) for o in draw(st.permutations(produced))]
    if select is not None:
        # inner nodes outside the backward closure of the kept outputs do not contribute to the wrapper's inputs
        lvl = [x if x["k"] != "graph" else {"k": "func", "name": x["name"], "params": x["flat_inputs"], "outs": x["flat_outputs"], "_inner": x}
               for x in S_nodes]
        sp = ref.producers(lvl)
        keep = {sp[o]["name"] for o in produced if o not in dropped and o in sp}
        closure = ref.ancestors_closure(lvl, keep)
        for x in lvl:
            if x["name"] not in closure:
                inactive += [nm for nm in _func_names(x.get("_inner", x)) if nm not in inactive]
    inner_bind = {}
    has_default = {p for x in topo for p in x.get("defaults", {})}
    for p in list(bind):
        # an inner binding of a parameter that carries a signature default AND is shared with an outside consumer is
        # rejected by design ("Inconsistent defaults", tests/test_bind_defaults.py::test_bound_value_overrides_signature_default)
        if p in has_default and p in outside_consumed:
            continue
        if p in inputs and draw(st.booleans()):
            inner_bind[pi.get(p, p)] = bind[p]
    # inputs consumed only by inactive inner nodes are not inputs of the wrapper any more
    inputs = [p for p in inputs if any(p in x.get("params", []) for x in S if x["name"] not in inactive)]
    inner_bind = {k: v for k, v in inner_bind.items() if k in {pi.get(p, p) for p in inputs}}
    gspec = {"name": f"sub{level}", "nodes": inner_nodes, "bind": inner_bind, "select": select}
    exposed_out = [o for o in produced if o not in hidden]
    ren = []
    ren += draw(rename_history({pi.get(p, p): p for p in inputs}, "inputs", f"L{level}i_"))
    ren += draw(rename_history({pi.get(o, o): o for o in exposed_out}, "outputs", f"L{level}o_"))
    wrapper = {"k": "graph", "name": f"sub{level}", "graph": gspec, "renames": ren, "inner_bound_flat": [p for p in bind if pi.get(p, p) in inner_bind],
               "flat_inputs": inputs, "flat_outputs": exposed_out}
    outer = [dict(x) for x in rest_before] + [wrapper] + [dict(x) for x in rest_after]
    return outer, hidden, inactive


def _func_names(x):
    if x["k"] != "graph":
        return [x["name"]]
    return [nm for y in x["graph"]["nodes"] for nm in _func_names(y)]


def _rename_inner(x, pi):
    """Apply the name permutation to a node spec; a nested wrapper is renamed through one more history batch."""
    if not pi:
        return x
    if x["k"] != "graph":
        return _rename_node(x, pi)
    y = dict(x)
    im = {p: pi.get(p, p) for p in x["flat_inputs"] if pi.get(p, p) != p}
    om = {o: pi.get(o, o) for o in x["flat_outputs"] if pi.get(o, o) != o}
    ren = list(x.get("renames", []))
    if im:
        ren.append({"kind": "inputs", "map": im})
    if om:
        ren.append({"kind": "outputs", "map": om})
    y["renames"] = ren
    return y


# ------------------------------------------------------------------------------------
# rich programs for the event-stream properties (C12, C13): nesting incl. sibling wrappers, map, cache, failures
# ------------------------------------------------------------------------------------


@st.composite
def multi_nest(draw, topo):
    """Wrap 2-3 disjoint intervals of the topological order as sibling graph nodes w0, w1, ... (no renames)."""
    n = len(topo)
    k = draw(st.integers(2, 3))
    cuts = sorted(draw(st.lists(st.integers(0, n), min_size=2 * k, max_size=2 * k)))
    outer = []
    pos = 0
    wi = 0
    wrapper_graph = {}
    for j in range(k):
        a, b = cuts[2 * j], cuts[2 * j + 1]
        a = max(a, pos)
        if b <= a:
            continue
        outer += [dict(x) for x in topo[pos:a]]
        S = topo[a:b]
        sprod = {o for x in S for o in x["outs"]}
        inputs = list(dict.fromkeys(p for x in S for p in x["params"] if p not in sprod))
        name = f"w{wi}"
        wi += 1
        outer.append({"k": "graph", "name": name, "graph": {"name": name, "nodes": [dict(x) for x in S]}, "flat_inputs": inputs,
                      "flat_outputs": [o for x in S for o in x["outs"]], "renames": []})
        wrapper_graph[name] = name
        pos = b
    outer += [dict(x) for x in topo[pos:]]
    return outer, wrapper_graph


@st.composite
def rich_case(draw, tier="quick"):
    kind = draw(st.sampled_from(["g1", "g1nest", "g1multi", "g2", "loop"]))
    c = {"kind": kind, "wrapper_graph": {}}
    if kind in ("g1", "g1nest", "g1multi"):
        topo = draw(g1_nodes(3, 7, default_on_edge=0.1))
        nfail = draw(st.sampled_from([0, 0, 1, 1, 2]))
        fail_idx = draw(st.permutations(list(range(len(topo)))))[:nfail]
        for i in fail_idx:
            # "always", or depending on the arguments (so that under map some items fail and others do not)
            how = "always" if draw(st.booleans()) else {"mod": 2, "eq": draw(st.integers(0, 1))}
            topo[i] = {**topo[i], "fail": how, "fail_empty": draw(st.booleans())}
        for n in topo:
            if prob(draw, 0.25):
                n["cache"] = True
        if kind == "g1nest":
            outer, hidden, inactive = draw(nest_spec(topo, draw(st.sampled_from([1, 2, 3])), {}, permute_names=False))
            c["nodes"] = draw(permuted(outer))
            c["wrapper_graph"] = {f"sub{i}": f"sub{i}" for i in range(4)}
        elif kind == "g1multi":
            outer, wg = draw(multi_nest(topo))
            c["nodes"] = draw(permuted(outer))
            c["wrapper_graph"] = wg
        else:
            c["nodes"] = draw(permuted(topo))
    elif kind == "g2":
        c["nodes"], _ = draw(g2_nodes(max_nodes=5, p_fail=0.3))
        for n in c["nodes"]:
            if n["k"] in ("func", "ifelse") and prob(draw, 0.25):
                n["cache"] = True
            if n.get("fail") and draw(st.booleans()):
                n["fail_empty"] = True
    else:
        c["loop"] = {"k": draw(st.integers(1, 3)), "form": draw(st.sampled_from(["while", "dowhile", "signal"])), "gate": draw(st.sampled_from(["ifelse", "route"])),
                     "exit": draw(st.sampled_from(["END", "node"])), "dopen": True, "limit": draw(st.integers(0, 4)), "step": 1, "start": 0,
                     "limit_input": False, "step_input": False, "acc": prob(draw, 0.3), "nested": prob(draw, 0.4), "limit_off": 0, "entry": 0}
        if c["loop"]["nested"]:
            c["loop"]["k"] = 1
            c["wrapper_graph"] = {"loop": "loop"}
    c["method"] = draw(st.sampled_from(["run", "run", "map", "mapnode"])) if kind != "loop" else "run"
    c["nitems"] = draw(st.integers(1, 3))
    c["error_handling"] = draw(st.sampled_from(["raise", "continue"]))
    c["runner"] = draw(st.sampled_from(["sync", "async", "sched"]))
    c["sched"] = draw(st.lists(st.integers(0, 7), max_size=40))
    c["runs"] = draw(st.sampled_from([1, 1, 2]))  # a second run on the same runner hits the cache
    c["select"] = draw(st.lists(st.integers(0, 9), min_size=1, max_size=2)) if prob(draw, 0.4) else None
    c["on_missing"] = draw(st.sampled_from(["ignore", "warn", "error", "error"]))
    c["max_iter"] = draw(st.sampled_from([4, 10, 25]))
    c["omit_required"] = prob(draw, 0.08)
    c["mc"] = draw(st.sampled_from([None, None, 1, 2, 3]))  # max_concurrency (async runners only)
    c["cache_set_fails"] = prob(draw, 0.1)  # the cache backend's set() raises (quota, unpicklable, ...)
    c["bad_on_missing"] = prob(draw, 0.05)  # an invalid on_missing value: the call must be rejected up front
    return c


# ------------------------------------------------------------------------------------
# the same program, declared in a roundabout way (external names, defaults and types unchanged)
# ------------------------------------------------------------------------------------


def present(nodes, mode, keep_fid=False, warm=True):
    """swap = the function's first two parameters carry each other's names and ONE with_inputs call swaps them back (the node
    is inspected first, so its lazily cached attributes are filled before the derivation);
    wrap = the node sits alone in a nested graph under inner parameter names, and the wrapper's inputs are renamed back.
    keep_fid: the generated function keeps its identity in logged calls / result terms (reference evaluators see no difference)."""
    out = []
    for n in nodes:
        if n["k"] != "func" or n.get("renames") or n.get("rename_inputs"):
            out.append(n)
            continue
        ps = n.get("params", [])
        if mode == "swap" and len(ps) >= 2:
            a, b = ps[0], ps[1]
            sw = {a: b, b: a}
            m = dict(n)
            m["params"] = [sw.get(x, x) for x in ps]
            m["defaults"] = {sw.get(k, k): v for k, v in n.get("defaults", {}).items()}
            if n.get("ann"):
                m["ann"] = {sw.get(k, k): v for k, v in n["ann"].items()}
            if n.get("mutates"):
                m["mutates"] = [sw.get(k, k) for k in n["mutates"]]
            m["renames"] = ([{"kind": "warm"}] if warm else []) + [{"kind": "inputs", "map": {a: b, b: a}}]
            if not keep_fid:
                m["fid"] = n.get("fid", n["name"]) + "~swapped"
            out.append(m)
        elif mode == "wrap" and ps and not n.get("emit") and not n.get("wait_for"):
            inn = {p_: p_ + "_in" for p_ in ps}
            core = dict(n)
            core["name"] = n["name"] + "_core"
            core["fid"] = n.get("fid", n["name"]) + ("" if keep_fid else "~core")
            core["params"] = [inn[x] for x in ps]
            core["defaults"] = {inn[k]: v for k, v in n.get("defaults", {}).items() if k in inn}
            if n.get("ann"):
                core["ann"] = {inn.get(k, k): v for k, v in n["ann"].items()}
            out.append({"k": "graph", "name": n["name"], "graph": {"nodes": [core], "name": n["name"]}, "outs": list(n.get("outs", [])), "params": list(ps),
                        "renames": ([{"kind": "warm"}] if warm else []) + [{"kind": "inputs", "map": {v: k for k, v in inn.items()}}]})
        else:
            out.append(n)
    return out
