"""Hypothesis strategies producing program IR (plain JSON values).  DESIGN.md 3.2."""
from __future__ import annotations

from hypothesis import strategies as st

from . import ref


def prob(draw, p):
    """Bernoulli(p) draw (st.floats is far from uniform, so thresholds on it are not probabilities)."""
    k = max(0, min(20, round(p * 20)))
    return draw(st.sampled_from([True] * k + [False] * (20 - k))) if 0 < k < 20 else k == 20


@st.composite
def g1_nodes(draw, min_nodes=2, max_nodes=7, prefix="n", out_prefix="o", in_prefix="x", p_edge=0.7, allow_no_out=True, default_on_edge=0.2):
    """Acyclic gate-free program: list of func-node specs in a topological order (unique producers)."""
    n = draw(st.integers(min_nodes, max_nodes))
    avail: list[str] = []
    produced: set[str] = set()
    defaults_by_name: dict = {}
    decided: set[str] = set()
    n_inputs = 0
    nodes = []
    for i in range(n):
        name = f"{prefix}{i}"
        k = draw(st.integers(0, 3))
        params: list[str] = []
        for _ in range(k):
            if avail and prob(draw, p_edge):
                p = draw(st.sampled_from(avail))
            else:
                p = f"{in_prefix}{n_inputs}"
                n_inputs += 1
                avail.append(p)
            if p in params:
                continue
            params.append(p)
            if p not in decided:
                decided.add(p)
                pr = default_on_edge if p in produced else 0.35
                if prob(draw, pr):
                    defaults_by_name[p] = ["dflt", p]
        nout = draw(st.sampled_from([0, 1, 1, 1, 2, 3] if allow_no_out else [1, 1, 1, 2, 3]))
        outs = [f"{out_prefix}{i}_{j}" for j in range(nout)]
        params = [p for p in params if p not in defaults_by_name] + [p for p in params if p in defaults_by_name]
        nodes.append({
            "k": "func",
            "name": name,
            "params": params,
            "defaults": {p: defaults_by_name[p] for p in params if p in defaults_by_name},
            "outs": outs,
        })
        for o in outs:
            produced.add(o)
            avail.append(o)
    return nodes


@st.composite
def permuted(draw, nodes):
    order = draw(st.permutations(list(range(len(nodes)))))
    return [nodes[i] for i in order]


@st.composite
def subset(draw, items, p=0.3):
    return [x for x in items if prob(draw, p)]


@st.composite
def g1_case(draw, min_nodes=2, max_nodes=7, with_select=True):
    """Program + configuration (bindings, run-time values, optional selection)."""
    topo = draw(g1_nodes(min_nodes, max_nodes))
    nodes = draw(permuted(topo))
    prod = ref.producers(nodes)
    outs = [o for n in topo for o in n["outs"]]
    inputs = []
    for n in topo:
        for p in n["params"]:
            if p not in prod and p not in inputs:
                inputs.append(p)
    bind = {p: ["bound", p] for p in draw(subset(inputs, 0.25))}
    select = None
    if with_select and outs and prob(draw, 0.3):
        k = draw(st.integers(1, min(2, len(outs))))
        select = draw(st.permutations(outs))[:k]
    required, optional, _ = ref.input_spec(nodes, bind, select)
    values = {p: ["in", p, 0] for p in inputs if p in required}
    # optional inputs (defaulted / bound) sometimes overridden at run time; unneeded inputs sometimes supplied
    for p in inputs:
        if p not in values and prob(draw, 0.4 if p in optional else 0.3):
            values[p] = ["in", p, 1]
    return {"nodes": nodes, "bind": bind, "values": values, "select": select}


# ------------------------------------------------------------------------------------
# G2 - control flow: gates, optional cycle, emit/wait_for, failing nodes
# ------------------------------------------------------------------------------------


def _reorder(node):
    d = node.get("defaults", {})
    node["params"] = [p for p in node["params"] if p not in d] + [p for p in node["params"] if p in d]


def _name_defaults(nodes):
    dd = {}
    for n in nodes:
        for p, v in n.get("defaults", {}).items():
            dd[p] = v
    return dd


def _consumed(nodes):
    return {p for n in nodes for p in n.get("params", [])}


@st.composite
def g2_nodes(draw, max_nodes=6, p_cycle=0.4, p_signal=0.3, p_fail=0.25, min_gates=1, max_gates=3):
    base = draw(g1_nodes(2, max_nodes))
    funcs = [n["name"] for n in base]
    prod = ref.producers(base)
    names = []
    for n in base:
        for p in n["params"]:
            if p not in names:
                names.append(p)
        for o in n["outs"]:
            if o not in names:
                names.append(o)
    dd = _name_defaults(base)
    consumed = _consumed(base)
    gates = []
    for gi in range(draw(st.integers(min_gates, max_gates))):
        k = draw(st.integers(0, 2)) if names else 0
        params = []
        for _ in range(k):
            p = draw(st.sampled_from(names))
            if p not in params:
                params.append(p)
        # shared parameters must agree on defaults with the other consumers
        defaults = {p: dd[p] for p in params if p in dd and p in consumed}
        g = {"name": f"g{gi}", "params": params, "defaults": defaults, "default_open": draw(st.booleans())}
        _reorder(g)
        pool = funcs + ["END"]
        if draw(st.booleans()):
            g["k"] = "ifelse"
            t = draw(st.sampled_from(funcs))
            f = draw(st.sampled_from([x for x in pool if x != t]))
            if draw(st.booleans()):
                t, f = f, t
            g["t"], g["f"] = t, f
            g["table"] = draw(st.lists(st.booleans(), min_size=1, max_size=3))
        else:
            g["k"] = "route"
            first = draw(st.sampled_from(funcs))
            rest = draw(st.lists(st.sampled_from(pool), max_size=3))
            targets = list(dict.fromkeys([first] + rest))
            g["targets"] = draw(st.permutations(targets))
            g["multi"] = prob(draw, 0.35)
            if g["multi"]:
                table = []
                for _ in range(draw(st.integers(1, 3))):
                    if prob(draw, 0.1):
                        table.append(None)
                    else:
                        table.append([t for t in draw(st.permutations(g["targets"])) if prob(draw, 0.7)])
                g["table"] = table
                g["fallback"] = None
            else:
                g["fallback"] = draw(st.sampled_from(pool)) if prob(draw, 0.4) else None
                opts = list(g["targets"]) + [None]
                g["table"] = draw(st.lists(st.sampled_from(opts), min_size=1, max_size=3))
        gates.append(g)
    nodes = [dict(n) for n in base] + gates
    labels = set()
    # --- optional cycle: a late node's output takes the name of a graph input of an earlier node
    if prob(draw, p_cycle):
        cands = []
        for li in range(1, len(base)):
            if not base[li]["outs"]:
                continue
            for ei in range(0, li + 1):
                for p in base[ei]["params"]:
                    if p not in prod:
                        cands.append((li, p))
        if cands:
            li, x = draw(st.sampled_from(sorted(set(cands))))
            L = nodes[li]
            o = L["outs"][draw(st.integers(0, len(L["outs"]) - 1))]
            L["outs"] = [x if y == o else y for y in L["outs"]]
            for n in nodes:
                if o in n["params"] and x in n["params"]:
                    n["params"] = [p for p in n["params"] if p != o]
                n["params"] = [x if p == o else p for p in n["params"]]
                dflt = dict(n.get("defaults", {}))
                dflt.pop(o, None)
                dflt.pop(x, None)
                n["defaults"] = dflt
                _reorder(n)
            labels.add("cycle")
    # --- optional ordering signal
    if prob(draw, p_signal) and len(nodes) >= 2:
        pi = draw(st.integers(0, len(nodes) - 1))
        wi = draw(st.integers(0, len(nodes) - 2))
        if wi >= pi:
            wi += 1
        nodes[pi] = {**nodes[pi], "emit": ["sig0"]}
        nodes[wi] = {**nodes[wi], "wait_for": ["sig0"]}
        labels.add("signal")
    # --- optional failing function node
    if prob(draw, p_fail):
        nf = draw(st.sampled_from([1, 1, 2, 2, 3]))
        for fi in draw(st.permutations(list(range(len(base)))))[:nf]:
            nodes[fi] = {**nodes[fi], "fail": draw(st.sampled_from(["always", "always", {"mod": 2, "eq": 0}, {"mod": 3, "eq": 1}]))}
        labels.add("failing_node")
        if nf > 1:
            labels.add("failing_nodes>=2")
    nodes = draw(permuted(nodes))
    return nodes, sorted(labels)
