"""Execute a `gen.rich_case` (run / map / mapping node; sync / async / scheduled; repeated on one runner) with given processors."""
from __future__ import annotations

import asyncio
import warnings

from .build import Ctx, make_graph
from .loops import loop_graph_spec, loop_values
from .observe import Outcome, _outcome
from .sched import run_scheduled
from .observe import arun as _arun


class Call:
    def __init__(self):
        self.kind = "run"
        self.outcome = None  # Outcome for run; for map: Outcome('map', result=list) or Outcome('raised')
        self.observed_failed = False
        self.status_by_run = {}
        self.rejected = False
        self.ctx_log = []
        self.paused = False


def prepare(c, ctx, flavour):
    wrapper_graph = dict(c.get("wrapper_graph") or {})
    if c["kind"] == "loop":
        gspec = loop_graph_spec(c["loop"])
    else:
        gspec = {"nodes": c["nodes"]}
    method = c["method"]
    g_inner = make_graph(ctx, gspec, flavour)
    sp = g_inner.inputs
    if c["kind"] == "loop":
        vals = dict(loop_values(c["loop"]))
    else:
        vals = {p: ("in", p, 0) for p in sp.required}
        for ps in sp.entrypoints.values():
            for p in ps:
                vals[p] = ("in", p, 0)
    kw = {}
    if len(sp.entrypoints) > 1 and c["kind"] != "loop":
        kw["entrypoint"] = sorted(sp.entrypoints)[0]
    mapped = None
    if method in ("map", "mapnode"):
        req = sorted(sp.required)
        if not req:
            method = "run"
        else:
            mapped = req[0]
            vals[mapped] = [("it", i) for i in range(c["nitems"])]
    if c.get("omit_required") and sp.required and method == "run":
        vals.pop(sorted(sp.required)[0], None)  # a rejected call: must emit nothing
    g = g_inner
    if method == "mapnode":
        wrapper = {"k": "graph", "name": "mapped", "graph": {**gspec, "name": "mapped"},
                   "map": {"params": [mapped], "mode": "zip", "error_handling": c["error_handling"], "before_renames": True}}
        ctx.funcs.clear()
        g = make_graph(ctx, {"nodes": [wrapper]}, flavour)
        wrapper_graph["mapped"] = "mapped"
        kw.pop("entrypoint", None)
    if c.get("select") is not None and g.outputs:
        outs = list(g.outputs)
        kw["select"] = list(dict.fromkeys(outs[i % len(outs)] for i in c["select"]))
        kw["on_missing"] = c["on_missing"]
    if c.get("bad_on_missing"):
        kw["on_missing"] = "raise"  # not one of ignore / warn / error
    return g, vals, kw, method, mapped, wrapper_graph


def execute(c, proc_factory, n_calls=None):
    """Run the case; proc_factory(call_index, runner_kind) -> list of processors. Returns (list[Call], wrapper_graph, ctx)."""
    from hypergraph import AsyncRunner, SyncRunner
    from hypergraph.cache import InMemoryCache

    runner_kind = c["runner"]
    flavour = "async" if runner_kind == "sched" else "sync"
    ctx = Ctx(compact=True)
    g, vals, kw, method, mapped, wrapper_graph = prepare(c, ctx, flavour)
    cache = _FailingSetCache(InMemoryCache()) if c.get("cache_set_fails") else InMemoryCache()
    if c.get("cache_get_fails") is not None:
        cache = _FailingGetCache(cache, c["cache_get_fails"])
    runner = SyncRunner(cache=cache) if runner_kind == "sync" else AsyncRunner(cache=cache)
    calls = []
    for i in range(n_calls or c["runs"]):
        procs = proc_factory(i, runner_kind)
        call = Call()
        call.kind = "map" if method == "map" else "run"
        if c.get("rand_nodes"):
            import random

            random.seed(424242)  # user code that relies on a seeded global RNG: the same draws with or without observers

        ctx.reset()
        common = dict(kw)
        if method == "map":
            common.update(map_over=mapped, error_handling=c["error_handling"])
        else:
            common.update(error_handling=c["error_handling"], max_iterations=c["max_iter"])
        if runner_kind != "sync" and c.get("mc") is not None:
            common["max_concurrency"] = c["mc"]
        try:
            with warnings.catch_warnings():
                # (a process that promotes warnings to errors - `python -W error`, pytest's filterwarnings=error - is a legal host)
                warnings.simplefilter("error" if c.get("warnings_as_errors") else "ignore")
                if runner_kind == "sync":
                    fn = runner.map if method == "map" else runner.run
                    res = fn(g, dict(vals), event_processors=procs, **common)
                elif runner_kind == "async":
                    fn = runner.map if method == "map" else runner.run
                    res = _arun(fn(g, dict(vals), event_processors=procs, **common))
                else:
                    out, sched = run_scheduled(ctx, g, vals, c["sched"], runner=runner, processors=procs, method="map" if method == "map" else "run", **common)
                    if out.status == "raised":
                        raise out.error
                    if out.status == "deadlock":
                        call.outcome = out
                        calls.append(call)
                        continue
                    res = out.result
        except (Exception, asyncio.CancelledError) as e:  # noqa: BLE001
            call.outcome = Outcome("raised", None, e)
            call.observed_failed = True
            name = type(e).__name__
            call.rejected = name in ("MissingInputError", "IncompatibleRunnerError") or (name in ("ValueError", "GraphConfigError") and not ctx.log and _is_validation(e))
        else:
            if method == "map":
                call.outcome = Outcome("map", None, None, None, res)
                call.status_by_run = {r.run_id: r.status.value for r in res}
                call.observed_failed = False
            else:
                call.outcome = _outcome(res)
                call.status_by_run = {res.run_id: res.status.value} if res.status.value != "paused" else {}
                call.observed_failed = res.status.value == "failed"
                call.paused = res.status.value == "paused"
        call.ctx_log = list(ctx.log)
        calls.append(call)
    return calls, wrapper_graph, ctx


class CacheSetFault(RuntimeError):
    pass


class _FailingSetCache:
    """Cache backend whose set() always raises (a full disk, a quota, an unpicklable result)."""

    def __init__(self, inner):
        self.inner = inner

    def get(self, key):
        return self.inner.get(key)

    def set(self, key, value):
        raise CacheSetFault("cache backend refused the write")


class CacheGetFault(RuntimeError):
    pass


class _FailingGetCache:
    """Cache backend whose k-th get() raises (a network cache that is briefly unreachable)."""

    def __init__(self, inner, k):
        self.inner, self.k, self.n = inner, k, 0

    def get(self, key):
        self.n += 1
        if self.n - 1 == self.k:
            raise CacheGetFault("cache backend unreachable")
        return self.inner.get(key)

    def set(self, key, value):
        return self.inner.set(key, value)


def _is_validation(e):
    m = str(e)
    return any(s in m for s in ("entry point", "Ambiguous cycle entry", "Invalid select", "internal override", "Input keys", "Invalid on_missing", "Invalid error_handling", "Too many map tasks"))
