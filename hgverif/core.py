"""Violations, evidence accounting, known findings."""
from __future__ import annotations

import hashlib
import json
import os
from collections import Counter

from . import VERIF_DIR


class Violation(Exception):
    """An oracle failure. `sig` names the specific failing shape (matched against known findings)."""

    def __init__(self, kind: str, detail: str = "", **sig):
        super().__init__(f"{kind}: {detail}")
        self.kind = kind
        self.sig = {"kind": kind, **sig}
        self.detail = detail


class HarnessError(Exception):
    """Something is wrong with the harness itself (generator health, impossible state). Exit 2."""


def canon(obj) -> str:
    return json.dumps(obj, sort_keys=True, separators=(",", ":"), default=repr)


def case_hash(obj) -> str:
    return hashlib.sha256(canon(obj).encode()).hexdigest()[:16]


class Evidence:
    """Counts what a run actually covered. Merged across shards as set unions / counter sums."""

    MAX_SAMPLES = 4
    MAX_SAMPLE_CHARS = 3000

    def __init__(self, tier="quick"):
        self.tier = tier
        self.evaluations = 0
        self.nontrivial: set[str] = set()
        self.distinct: set[str] = set()
        self.classes: Counter = Counter()
        self.discarded: Counter = Counter()
        self.known_excluded: Counter = Counter()
        self.samples: list = []
        self.extra: dict = {}
        self.counters: Counter = Counter()

    # -- recording -------------------------------------------------------------------
    def case(self, case, nontrivial: bool, labels=()):
        """Record one executed case (after its oracle ran)."""
        self.evaluations += 1
        h = case_hash(case)
        self.distinct.add(h)
        for lab in labels:
            self.classes[lab] += 1
        if nontrivial:
            new = h not in self.nontrivial
            self.nontrivial.add(h)
            if new and len(self.samples) < self.MAX_SAMPLES:
                s = canon(case)
                if len(s) <= self.MAX_SAMPLE_CHARS:
                    self.samples.append(json.loads(s))

    def discard(self, reason: str):
        self.discarded[reason] += 1

    def count(self, name: str, n: int = 1):
        self.counters[name] += n

    # -- (de)serialisation for shards --------------------------------------------------
    def dump(self) -> dict:
        return {
            "evaluations": self.evaluations,
            "nontrivial": sorted(self.nontrivial),
            "distinct": sorted(self.distinct),
            "classes": dict(self.classes),
            "discarded": dict(self.discarded),
            "known_excluded": dict(self.known_excluded),
            "samples": self.samples,
            "extra": self.extra,
            "counters": dict(self.counters),
        }

    def merge(self, d: dict):
        self.evaluations += d["evaluations"]
        self.nontrivial |= set(d["nontrivial"])
        self.distinct |= set(d["distinct"])
        self.classes.update(d["classes"])
        self.discarded.update(d["discarded"])
        self.known_excluded.update(d["known_excluded"])
        self.counters.update(d["counters"])
        for s in d["samples"]:
            if len(self.samples) < self.MAX_SAMPLES:
                self.samples.append(s)
        for k, v in d["extra"].items():
            if isinstance(v, (int, float)) and isinstance(self.extra.get(k), (int, float)):
                self.extra[k] = max(self.extra[k], v) if k.startswith("max_") else self.extra[k] + v
            elif isinstance(v, list) and isinstance(self.extra.get(k), list):
                self.extra[k] = sorted(set(map(canon, self.extra[k])) | set(map(canon, v)))
                self.extra[k] = [json.loads(x) for x in self.extra[k]]
            else:
                self.extra.setdefault(k, v)


# ------------------------------------------------------------------------------------
# known findings
# ------------------------------------------------------------------------------------

_FINDINGS = None


def load_findings():
    global _FINDINGS
    if _FINDINGS is None:
        path = os.path.join(VERIF_DIR, "known_findings.json")
        with open(path) as f:
            _FINDINGS = json.load(f)["findings"]
    return _FINDINGS


def open_findings(prop: str):
    return [f for f in load_findings() if f["property"] == prop and f["status"] == "open"]


def match_open(prop: str, sig: dict):
    """An open finding matches when every key of its signature equals the violation's."""
    for f in open_findings(prop):
        fs = f["signature"]
        if all(sig.get(k) == v for k, v in fs.items()):
            return f
    return None
