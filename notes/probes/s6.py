"""Throwaway smoke: C06 rename histories on FunctionNode / GraphNode vs positional model."""
import warnings; warnings.simplefilter("ignore")
import random, sys
from hypergraph import Graph, SyncRunner, FunctionNode
from hypergraph.nodes._rename import RenameError

fails = {}
def fail(kind, info): fails.setdefault(kind, []).append(info)
POOL = ["a", "b", "c", "d", "e", "t"]
GOT = {}

def mk(params, defaults):
    sig = ", ".join(p if p not in defaults else f"{p}=_d_{p}" for p in params)
    src = f"def f({sig}):\n    GOT.clear(); GOT.update(dict({', '.join(f'{p}={p}' for p in params)}))\n    return tuple(('out', i) for i in range(NOUT)) if NOUT > 1 else ('out', 0)\n"
    return src

def batch(rnd, cur):
    k = rnd.randint(1, len(cur)); olds = rnd.sample(cur, k)
    # choose new names so the final tuple has no duplicates: permutation among olds + pool names not in cur
    free = [x for x in POOL if x not in cur] + olds
    rnd.shuffle(free); news = free[:k]
    return dict(zip(olds, news))

def main(N, seed, wrap):
    rnd = random.Random(seed); cases = 0; swaps = 0
    for _ in range(N):
        npar = rnd.randint(1, 3); orig = rnd.sample(POOL[:5], npar)
        ndef = rnd.randint(0, npar); dpar = orig[npar - ndef:]
        defaults = {p: ("dflt", p) for p in dpar}
        nout = rnd.randint(1, 2); outs0 = [f"o{i}" for i in range(nout)]
        ns = {"GOT": GOT, "NOUT": nout}
        for p, v in defaults.items(): ns[f"_d_{p}"] = v
        exec(mk(orig, defaults), ns)
        node = FunctionNode(ns["f"], name="f", output_name=outs0[0] if nout == 1 else tuple(outs0))
        if wrap:
            node = Graph([node], name="w").as_node()
        cur_in = list(orig); cur_out = list(outs0); hist = []
        for _b in range(rnd.randint(1, 5)):
            if rnd.random() < 0.7:
                m = batch(rnd, cur_in); 
                try: node = node.with_inputs(m)
                except RenameError as e: fail("unexpected RenameError", (orig, hist, m, str(e))); break
                if any(m.get(x, x) != x and m.get(x, x) in cur_in for x in m): swaps += 1
                cur_in = [m.get(x, x) for x in cur_in]; hist.append(("in", m))
            else:
                k = rnd.randint(1, len(cur_out)); olds = rnd.sample(cur_out, k)
                free = [x for x in ["o0", "o1", "p", "q", "r"] if x not in cur_out] + olds; rnd.shuffle(free)
                m = dict(zip(olds, free[:k]))
                node = node.with_outputs(m); cur_out = [m.get(x, x) for x in cur_out]; hist.append(("out", m))
        else:
            cases += 1
            if list(node.inputs) != cur_in: fail("C06:inputs", (orig, hist, node.inputs, cur_in)); continue
            if list(node.outputs) != cur_out: fail("C06:outputs", (orig, hist, node.outputs, cur_out)); continue
            for i, p in enumerate(orig):
                has = node.has_default_for(cur_in[i])
                if has != (p in defaults): fail("C06:has_default", (wrap, orig, dpar, hist, cur_in, p, cur_in[i], has)); break
                if has and node.get_default_for(cur_in[i]) != defaults[p]: fail("C06:default_value", (orig, hist, p)); break
            else:
                try:
                    g = Graph([node])
                    req = set(g.inputs.required); exp_req = {cur_in[i] for i, p in enumerate(orig) if p not in defaults}
                    if req != exp_req: fail("C06:required", (wrap, orig, dpar, hist, req, exp_req)); continue
                    vals = {cur_in[i]: ("v", orig[i]) for i in range(npar) if orig[i] not in defaults or rnd.random() < 0.5}
                    r = SyncRunner().run(g, vals)
                    for i, p in enumerate(orig):
                        exp = ("v", p) if cur_in[i] in vals else defaults[p]
                        if GOT.get(p) != exp: fail("C06:delivery", (wrap, orig, hist, cur_in, vals, dict(GOT))); break
                    expv = {cur_out[i]: ("out", i) for i in range(nout)}
                    if r.values != expv: fail("C06:result_names", (wrap, orig, hist, r.values, expv))
                except Exception as e:
                    fail("C06:run:" + type(e).__name__, (wrap, orig, dpar, hist, str(e)[:200]))
    return cases, swaps

if __name__ == "__main__":
    print(main(int(sys.argv[1]), int(sys.argv[2]), sys.argv[3] == "1"))
    for k, v in sorted(fails.items()):
        print("==", k, len(v)); print("   ", str(v[0])[:700])
