import warnings; warnings.simplefilter("ignore")
from hypergraph import Graph, node, route, ifelse, END, SyncRunner, AsyncRunner, InMemoryCache, FunctionNode, interrupt
from hypergraph.events import EventProcessor, AsyncEventProcessor
import asyncio

class Rec(EventProcessor):
    def __init__(self): self.ev=[]; self.sd=0
    def on_event(self, e): self.ev.append(e)
    def shutdown(self): self.sd+=1
def show(rec):
    for e in rec.ev:
        print("   ", type(e).__name__, getattr(e,'node_name',getattr(e,'graph_name','')), "span", e.span_id[:4], "parent", (e.parent_span_id or '')[:4], getattr(e,'status',''), getattr(e,'decision',''))
    print("    shutdowns", rec.sd)

print("=== C14 interrupts")
@node(output_name="draft")
def mk(prompt): return ("draft", prompt)
@interrupt(output_name="decision")
def approval(draft): return None
@node(output_name="final")
def fin(draft, decision): return ("final", draft, decision)
@node(output_name="side")
def side(prompt): return ("side", prompt)
g = Graph([mk, approval, fin, side])
print(g.inputs)
async def main():
    r = AsyncRunner()
    rec = Rec()
    res = await r.run(g, {"prompt": "p"}, event_processors=[rec])
    print(res.status, res.values, res.pause, res.pause.response_key)
    show(rec)
    res2 = await r.run(g, {"prompt": "p", res.pause.response_key: "ok"})
    print(res2.status, res2.values)
    # nested
    inner = Graph([approval, fin], name="review")
    outer = Graph([mk, inner.as_node(), side])
    print(outer.inputs)
    res = await r.run(outer, {"prompt": "p"})
    print(res.status, res.values, res.pause, res.pause.response_key, res.pause.response_keys)
    res2 = await r.run(outer, {"prompt": "p", res.pause.response_key: "ok"})
    print(res2.status, res2.values)
asyncio.run(main())

print("=== C16 entrypoint")
log=[]
@node(output_name="a")
def A(x): log.append("A"); return ("A",x)
@node(output_name="b")
def B(a): log.append("B"); return ("B",a)
@node(output_name="c")
def C(b, x): log.append("C"); return ("C",b,x)
g = Graph([A,B,C])
ge = g.with_entrypoint("B")
print(ge.inputs)
print(SyncRunner().run(ge, {"a": 1, "x": 2}).values, log)
log.clear()
try:
    print(SyncRunner().run(ge, {"a": 1, "x": 2}, select=["a"], on_missing="error").values)
except Exception as e: print("ERR", type(e).__name__, str(e)[:120])

print("=== C11 partial")
@node(output_name="b")
def Bf(a): raise ValueError("boom")
@node(output_name="d")
def D(x): return ("D",x)
g = Graph([A,Bf,C,D])
rec=Rec()
r = SyncRunner().run(g, {"x":1}, error_handling="continue", event_processors=[rec])
print(r.status, r.values, repr(r.error)); show(rec)
async def m2():
    rec=Rec()
    r = await AsyncRunner().run(g, {"x":1}, error_handling="continue", event_processors=[rec])
    print(r.status, r.values, repr(r.error)); show(rec)
asyncio.run(m2())
