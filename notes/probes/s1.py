"""Throwaway smoke: random DAGs -> C01 reference equality, C08 sufficiency/necessity, C16 entrypoints."""
import warnings; warnings.simplefilter("ignore")
import random, itertools, asyncio, sys, traceback
from hypergraph import Graph, SyncRunner, AsyncRunner, FunctionNode, MissingInputError
from hypergraph.events import EventProcessor

LOG = []
def mkfunc(nid, params, defaults, nout):
    sig = ", ".join(p if p not in defaults else f"{p}=_d_{p}" for p in params)
    # non-default params must precede defaults
    args = ", ".join(params)
    src = f"def {nid}({sig}):\n    return _impl('{nid}', ({args}{',' if params else ''}))\n"
    def _impl(n, a):
        LOG.append((n, a))
        if nout == 0: return None
        if nout == 1: return (n, 0, a)
        return tuple((n, i, a) for i in range(nout))
    ns = {"_impl": _impl}
    for p, v in defaults.items(): ns[f"_d_{p}"] = v
    exec(src, ns)
    return ns[nid]

def gen(rnd):
    n = rnd.randint(2, 7)
    names_in = []
    avail = []          # names that exist (inputs or outputs)
    produced = {}       # name -> node
    defaults_by_name = {}
    nodes = []
    for i in range(n):
        nid = f"n{i}"
        k = rnd.randint(0, 3)
        params = []
        for _ in range(k):
            if avail and rnd.random() < 0.7:
                p = rnd.choice(avail)
            else:
                p = f"x{len(names_in)}"; names_in.append(p); avail.append(p)
                if rnd.random() < 0.35: defaults_by_name[p] = ("dflt", p)
            if p not in params: params.append(p)
        # edge-fed params may have defaults too
        for p in params:
            if p in produced and p not in defaults_by_name and rnd.random() < 0.15:
                # only if all other consumers so far also lack... keep consistent: decide per name once
                if not any(p in nd["params"] for nd in nodes):
                    defaults_by_name[p] = ("dflt", p)
        nout = rnd.choice([0, 1, 1, 1, 2, 3])
        outs = [f"o{i}_{j}" for j in range(nout)]
        # order params: non-default first
        params = [p for p in params if p not in defaults_by_name] + [p for p in params if p in defaults_by_name]
        nodes.append({"id": nid, "params": params, "outs": outs})
        for o in outs: produced[o] = nid; avail.append(o)
    return nodes, defaults_by_name

def build(nodes, defaults_by_name, order):
    hn = []
    for nd in nodes:
        d = {p: defaults_by_name[p] for p in nd["params"] if p in defaults_by_name}
        f = mkfunc(nd["id"], nd["params"], d, len(nd["outs"]))
        on = None if not nd["outs"] else (nd["outs"][0] if len(nd["outs"]) == 1 else tuple(nd["outs"]))
        hn.append(FunctionNode(f, name=nd["id"], output_name=on))
    return Graph([hn[i] for i in order])

def ref(nodes, defaults, bound, values, active=None):
    prod = {o: nd for nd in nodes for o in nd["outs"]}
    env = {}; runnable = {}; 
    def resolve(p, stack=()):
        if p in prod and (active is None or prod[p]["id"] in active):
            r = run(prod[p])
            if r is not None:
                return True, env[p]
        if p in values: return True, values[p]
        if p in bound: return True, bound[p]
        if p in defaults: return True, defaults[p]
        return False, None
    def run(nd):
        if nd["id"] in runnable: return runnable[nd["id"]]
        args = []
        for p in nd["params"]:
            ok, v = resolve(p)
            if not ok: runnable[nd["id"]] = None; return None
            args.append(v)
        a = tuple(args); runnable[nd["id"]] = a
        for j, o in enumerate(nd["outs"]): env[o] = (nd["id"], j, a) if len(nd["outs"]) > 1 else (nd["id"], 0, a)
        return a
    for nd in nodes:
        if active is None or nd["id"] in active: run(nd)
    return env, runnable

class Rec(EventProcessor):
    def __init__(self): self.ev = []; self.sd = 0
    def on_event(self, e): self.ev.append(e)
    def shutdown(self): self.sd += 1

fails = {}
def fail(kind, info):
    fails.setdefault(kind, []).append(info)

def main(N, seed):
    rnd = random.Random(seed)
    stats = {"cases": 0}
    for case in range(N):
        nodes, defaults = gen(rnd)
        order = list(range(len(nodes))); rnd.shuffle(order)
        try:
            g = build(nodes, defaults, order)
        except Exception as e:
            fail("build:" + type(e).__name__, (nodes, defaults, str(e)[:100])); continue
        stats["cases"] += 1
        all_inputs = list(g.inputs.required) + list(g.inputs.optional)
        bound = {p: ("bound", p) for p in all_inputs if rnd.random() < 0.25}
        gb = g.bind(**bound) if bound else g
        req = set(gb.inputs.required); opt = set(gb.inputs.optional)
        if req & opt: fail("C08:overlap", (nodes, req, opt))
        if set(bound) & req: fail("C08:bound_in_required", (nodes, bound, req))
        values = {p: ("in", p) for p in req}
        for p in opt:
            if rnd.random() < 0.4: values[p] = ("in", p)
        # --- C01 / C08 sufficiency
        for runner_kind in ("sync", "async"):
            LOG.clear()
            try:
                if runner_kind == "sync": r = SyncRunner().run(gb, dict(values))
                else: r = asyncio.run(AsyncRunner().run(gb, dict(values)))
            except Exception as e:
                fail("C08:sufficiency:" + type(e).__name__, (nodes, defaults, bound, values, str(e)[:200])); continue
            env, runnable = ref(nodes, defaults, bound, values)
            if r.values != env:
                fail("C01:values", (nodes, defaults, bound, values, r.values, env))
            calls = {}
            for n, a in LOG: calls.setdefault(n, []).append(a)
            for nd in nodes:
                exp = runnable[nd["id"]]
                got = calls.get(nd["id"], [])
                if exp is None and got: fail("C01:ran_unsatisfiable", (nodes, nd["id"]))
                if exp is not None and (not got or got[-1] != exp): fail("C01:lastargs", (nodes, defaults, bound, values, nd["id"], got, exp))
        # --- C08 necessity
        for p in req:
            v2 = {k: v for k, v in values.items() if k != p}
            LOG.clear(); rec = Rec()
            try:
                SyncRunner().run(gb, v2, event_processors=[rec])
                fail("C08:necessity:accepted", (nodes, defaults, bound, p))
            except MissingInputError:
                if LOG or rec.ev or rec.sd: fail("C08:necessity:sideeffects", (nodes, p, LOG[:], len(rec.ev), rec.sd))
            except Exception as e:
                fail("C08:necessity:" + type(e).__name__, (nodes, p, str(e)[:100]))
        # --- C08 select narrowing: sufficiency + necessity under select
        outs = list(g.outputs)
        if outs:
            sel = rnd.sample(outs, rnd.randint(1, min(2, len(outs))))
            gs = gb.select(*sel)
            reqs = set(gs.inputs.required)
            vals = {p: ("in", p) for p in reqs}
            LOG.clear()
            try:
                r = SyncRunner().run(gs, vals)
                bad = set(r.values) - set(sel)
                if bad: fail("C16:select_leak", (nodes, sel, r.values))
                # reference with values only for reqs
                env, runnable = ref(nodes, defaults, bound, vals)
                for k in sel:
                    if k in env and r.values.get(k) != env[k]: fail("C16:select_value", (nodes, defaults, bound, sel, k, r.values.get(k), env[k]))
                    if k not in env and k in r.values: fail("C16:select_extra", (nodes, sel, k))
            except Exception as e:
                fail("C08:select_sufficiency:" + type(e).__name__, (nodes, defaults, bound, sel, vals, str(e)[:200]))
            for p in reqs:
                v2 = {k: v for k, v in vals.items() if k != p}
                try:
                    SyncRunner().run(gs, v2); fail("C08:select_necessity:accepted", (nodes, sel, p))
                except MissingInputError: pass
                except Exception as e: fail("C08:select_necessity:" + type(e).__name__, (nodes, sel, p, str(e)[:100]))
        # --- C16 entrypoints
        eps = rnd.sample([nd["id"] for nd in nodes], rnd.randint(1, min(2, len(nodes))))
        try:
            ge = gb.with_entrypoint(*eps)
            reqe = set(ge.inputs.required)
            vals = {p: ("inj", p) for p in reqe}
            for p in ge.inputs.optional:
                if rnd.random() < 0.3: vals[p] = ("inj", p)
            LOG.clear()
            r = SyncRunner().run(ge, vals, on_internal_override="ignore")
            # allowed = eps + descendants (data deps)
            cons = {}
            prod = {o: nd["id"] for nd in nodes for o in nd["outs"]}
            succ = {nd["id"]: set() for nd in nodes}
            for nd in nodes:
                for p in nd["params"]:
                    if p in prod: succ[prod[p]].add(nd["id"])
            allowed = set(eps); stack = list(eps)
            while stack:
                x = stack.pop()
                for y in succ[x]:
                    if y not in allowed: allowed.add(y); stack.append(y)
            ran = {n for n, _ in LOG}
            if ran - allowed: fail("C16:upstream_ran", (nodes, eps, ran - allowed))
            if set(r.values) - set(g.outputs): fail("C16:nonoutput_key", (nodes, eps, r.values))
            env, runnable = ref(nodes, defaults, bound, vals, active=allowed)
            for k, v in r.values.items():
                if k in env and v != env[k]: fail("C16:ep_value", (nodes, defaults, bound, eps, vals, k, v, env[k]))
            for k in env:
                if k not in r.values: fail("C16:ep_missing", (nodes, eps, k))
        except Exception as e:
            fail("C16:ep:" + type(e).__name__, (nodes, defaults, bound, eps, str(e)[:300]))
    return stats

if __name__ == "__main__":
    st = main(int(sys.argv[1]), int(sys.argv[2]))
    print(st)
    for k, v in sorted(fails.items()):
        print("==", k, len(v))
        print("   ", v[0])
