import warnings; warnings.simplefilter("ignore")
import asyncio, itertools
from hypergraph import Graph, node, route, ifelse, END, AsyncRunner, FunctionNode
from hypergraph.events import AsyncEventProcessor
from hypergraph.events.types import NodeStartEvent, NodeEndEvent

class Sched:
    """Harness-owned scheduler: tasks park at checkpoints; driver releases one at a time at quiescence."""
    def __init__(self, choose):
        self.waiters = []   # (label, future)
        self.choose = choose
        self.trace = []     # quiescence snapshots
        self.inflight = 0; self.peak = 0
    async def park(self, label):
        fut = asyncio.get_running_loop().create_future()
        self.waiters.append((label, fut))
        await fut
    async def drive(self, main_task):
        loop = asyncio.get_running_loop()
        while not main_task.done():
            # yield until nothing else is runnable
            await asyncio.sleep(0)
            if len(loop._ready) > 0 or loop._scheduled:
                continue
            if main_task.done(): break
            if not self.waiters:
                raise RuntimeError("DEADLOCK: quiescent, nothing parked, run not finished")
            self.trace.append(sorted(l for l, _ in self.waiters))
            i = self.choose([l for l, _ in self.waiters])
            label, fut = self.waiters.pop(i)
            fut.set_result(None)
        return await main_task

class Hold(AsyncEventProcessor):
    def __init__(self, s): self.s = s; self.ev = []
    async def on_event_async(self, e):
        self.ev.append(e)
        if isinstance(e, NodeStartEvent):
            await self.s.park(("start", e.node_name))

def mk(name, params, out, sched, log):
    src = f"async def {name}({', '.join(params)}):\n    return await _body('{name}', ({', '.join(params)}{',' if params else ''}))\n"
    async def _body(nm, args):
        sched.inflight += 1; sched.peak = max(sched.peak, sched.inflight)
        log.append(("enter", nm, args))
        await sched.park(("body", nm))
        sched.inflight -= 1
        log.append(("exit", nm))
        return (nm, args)
    ns = {"_body": _body}
    exec(src, ns)
    return FunctionNode(ns[name], output_name=out)

async def run_once(order_seed, k):
    import random
    rnd = random.Random(order_seed)
    log = []
    s = Sched(lambda labels: rnd.randrange(len(labels)))
    A = mk("A", ["x"], "a", s, log); B = mk("B", ["x"], "b", s, log); C = mk("C", ["a", "b"], "c", s, log)
    I1 = mk("I1", ["x"], "i1", s, log); I2 = mk("I2", ["i1"], "i2", s, log)
    inner = Graph([I1, I2], name="inner")
    @ifelse(when_true="C", when_false=END)
    def gate(a): log.append(("gate", a)); return True
    g = Graph([A, B, C, gate, inner.as_node()])
    h = Hold(s)
    main = asyncio.ensure_future(AsyncRunner().run(g, {"x": 1}, max_concurrency=k, event_processors=[h]))
    res = await s.drive(main)
    return res.values, s.trace, s.peak, log

for seed in range(3):
    vals, trace, peak, log = asyncio.run(run_once(seed, 2))
    print("seed", seed, "peak", peak)
    print("  values", vals)
    for t in trace: print("   Q", t)
