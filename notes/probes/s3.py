"""Throwaway smoke: C02 (sync vs async under random schedules) + C15 (in-flight bound, deadlock) on random nested DAGs."""
import warnings; warnings.simplefilter("ignore")
import random, asyncio, sys, logging
logging.disable(logging.CRITICAL)
from hypergraph import Graph, SyncRunner, AsyncRunner, FunctionNode
from hypergraph.events import AsyncEventProcessor
from hypergraph.events.types import NodeStartEvent
import s1

class Sched:
    def __init__(self, rnd, adversarial=False):
        self.waiters = []; self.rnd = rnd; self.adv = adversarial
        self.inflight = 0; self.peak = 0; self.k = None; self.viol = []; self.steps = []
    async def park(self, label):
        fut = asyncio.get_running_loop().create_future(); self.waiters.append((label, fut)); await fut
    async def drive(self, main):
        loop = asyncio.get_running_loop()
        while not main.done():
            await asyncio.sleep(0)
            if len(loop._ready) > 0 or loop._scheduled: continue
            if main.done(): break
            if not self.waiters:
                self.viol.append("DEADLOCK"); main.cancel(); break
            if self.k is not None and self.inflight > self.k: self.viol.append(f"inflight {self.inflight} > k {self.k}")
            self.steps.append(sorted(map(str, (l for l, _ in self.waiters))))
            idxs = list(range(len(self.waiters)))
            if self.adv:
                starts = [i for i in idxs if self.waiters[i][0][0] == "start"]
                if starts: idxs = starts
            i = self.rnd.choice(idxs)
            _, fut = self.waiters.pop(i); fut.set_result(None)
        try: return await main
        except asyncio.CancelledError: return None

class Hold(AsyncEventProcessor):
    def __init__(self, s): self.s = s
    async def on_event_async(self, e):
        if isinstance(e, NodeStartEvent): await self.s.park(("start", e.node_name))

CUR = {"sched": None}
def mkafunc(nid, params, defaults, nout):
    sig = ", ".join(p if p not in defaults else f"{p}=_d_{p}" for p in params)
    args = ", ".join(params)
    src = f"async def {nid}({sig}):\n    return await _impl('{nid}', ({args}{',' if params else ''}))\n"
    async def _impl(n, a):
        s = CUR["sched"]
        s.inflight += 1; s.peak = max(s.peak, s.inflight)
        s1.LOG.append((n, a))
        await s.park(("body", n))
        s.inflight -= 1
        if nout == 0: return None
        if nout == 1: return (n, 0, a)
        return tuple((n, i, a) for i in range(nout))
    ns = {"_impl": _impl}
    for p, v in defaults.items(): ns[f"_d_{p}"] = v
    exec(src, ns); return ns[nid]

def hn(nd, defaults, asyncf):
    d = {p: defaults[p] for p in nd["params"] if p in defaults}
    f = (mkafunc if asyncf else s1.mkfunc)(nd["id"], nd["params"], d, len(nd["outs"]))
    on = None if not nd["outs"] else (nd["outs"][0] if len(nd["outs"]) == 1 else tuple(nd["outs"]))
    return FunctionNode(f, name=nd["id"], output_name=on)

def build(nodes, defaults, i, j, order_seed, asyncf):
    rnd = random.Random(order_seed)
    inner = Graph([hn(nd, defaults, asyncf) for nd in nodes[i:j]], name="sub")
    outer = [hn(nd, defaults, asyncf) for nd in nodes[:i]] + [inner.as_node()] + [hn(nd, defaults, asyncf) for nd in nodes[j:]]
    rnd.shuffle(outer)
    return Graph(outer, name="top")

fails = {}
def fail(kind, info): fails.setdefault(kind, []).append(info)

async def arun(g, values, s, k):
    h = Hold(s)
    main = asyncio.ensure_future(AsyncRunner().run(g, dict(values), event_processors=[h], max_concurrency=k))
    return await s.drive(main)

def main(N, seed):
    rnd = random.Random(seed); cases = 0; scheds = 0; pressed = 0
    for _ in range(N):
        nodes, defaults = s1.gen(rnd)
        n = len(nodes); i = rnd.randrange(0, n); j = rnd.randrange(i + 1, n + 1); os_ = rnd.random()
        try:
            gs = build(nodes, defaults, i, j, os_, False); ga = build(nodes, defaults, i, j, os_, True)
        except Exception as e: fail("build:" + type(e).__name__, str(e)[:100]); continue
        cases += 1
        values = {p: ("in", p) for p in gs.inputs.required}
        s1.LOG.clear(); rs = SyncRunner().run(gs, dict(values)); sync_calls = sorted(map(repr, s1.LOG))
        for t in range(6):
            k = rnd.choice([None, 1, 2, 3])
            s = Sched(random.Random(rnd.random()), adversarial=(t % 2 == 0)); s.k = k; CUR["sched"] = s
            s1.LOG.clear()
            ra = asyncio.run(arun(ga, values, s, k)); scheds += 1
            if s.viol: fail("C15:" + s.viol[0][:20], (nodes, i, j, k, s.viol, s.steps[-3:])); continue
            if k is not None and s.peak == k: pressed += 1
            if ra.values != rs.values: fail("C02:values", (nodes, i, j, k, ra.values, rs.values))
            if sorted(map(repr, s1.LOG)) != sync_calls: fail("C02:calls", (nodes, defaults, i, j, k, sorted(map(repr, s1.LOG)), sync_calls))
    return cases, scheds, pressed

if __name__ == "__main__":
    print(main(int(sys.argv[1]), int(sys.argv[2])))
    for k, v in sorted(fails.items()):
        print("==", k, len(v)); print("   ", str(v[0])[:1800])
