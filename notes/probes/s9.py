"""Throwaway smoke: C10 map vs single runs (runner.map and GraphNode.map_over), branches + failing items."""
import warnings; warnings.simplefilter("ignore")
import random, sys, asyncio, itertools, collections, logging
logging.disable(logging.CRITICAL)
from hypergraph import Graph, SyncRunner, AsyncRunner, FunctionNode, RunStatus
from hypergraph.nodes.gate import IfElseNode

fails = collections.defaultdict(list)
def fail(kind, info): fails[kind].append(info)
class Boom(Exception): pass
BOOMS = {}

def mk(name, params, body):
    src = f"def {name}({', '.join(params)}):\n    {body}\n"
    ns = {"Boom": Boom, "BOOMS": BOOMS}; exec(src, ns); return ns[name]

def inner_graph(nparams, failmod):
    ps = [f"p{i}" for i in range(nparams)]
    key = " + ".join(ps)
    n = [
        FunctionNode(mk("k", ps + ["bc"], f"return ({key}) * 10 + bc"), name="k", output_name="key"),
        IfElseNode(mk("g", ["key"], "return key % 2 == 0"), when_true="ev", when_false="od", name="g"),
        FunctionNode(mk("ev", ["key"], f"\n    if key % {failmod} == 0:\n        raise BOOMS.setdefault(key, Boom(key))\n    return ('even', key)"), name="ev", output_name="e"),
        FunctionNode(mk("od", ["key"], "return ('odd', key)"), name="od", output_name="o"),
    ]
    return Graph(n, name="inner"), ps

def norm(r): return (r.status, r.values, r.error)

def main(N, seed):
    rnd = random.Random(seed); cases = 0; mixed = 0
    for _ in range(N):
        nparams = rnd.randint(1, 2); failmod = rnd.choice([3, 4, 7, 1000])
        g, ps = inner_graph(nparams, failmod)
        mode = rnd.choice(["zip", "product"])
        L = rnd.randint(0, 4)
        lists = {p: [rnd.randint(0, 9) for _ in range(L if mode == "zip" else rnd.randint(0, 3))] for p in ps}
        order = ps[:]; rnd.shuffle(order)
        bc = rnd.randint(0, 1)
        combos = [dict(zip(order, c)) for c in (zip(*[lists[p] for p in order]) if mode == "zip" else itertools.product(*[lists[p] for p in order]))]
        BOOMS.clear()
        singles = [norm(SyncRunner().run(g, {**c, "bc": bc}, error_handling="continue")) for c in combos]
        cases += 1
        if len({tuple(sorted(s[1])) for s in singles}) > 1: mixed += 1
        k = rnd.choice([None, 1, 2, 3])
        for kind in ("sync", "async"):
            for eh in ("continue", "raise"):
                try:
                    if kind == "sync": res = SyncRunner().map(g, {**lists, "bc": bc}, map_over=order, map_mode=mode, error_handling=eh)
                    else: res = asyncio.run(AsyncRunner().map(g, {**lists, "bc": bc}, map_over=order, map_mode=mode, error_handling=eh, max_concurrency=k))
                    got = [norm(r) for r in res]
                    if eh == "raise" and any(s[0] == RunStatus.FAILED for s in singles): fail("C10:raise_not_raised", (kind, combos, singles))
                    if got != singles: fail(f"C10:map_vs_single:{kind}:{eh}", (mode, order, lists, got, singles))
                except Boom as e:
                    first = next((s[2] for s in singles if s[0] == RunStatus.FAILED), None)
                    if eh != "raise": fail("C10:raised_in_continue", (kind,))
                    elif e is not first: fail(f"C10:raise_not_first:{kind}", (mode, order, lists, repr(e), repr(first), k))
                except Exception as e:
                    fail("C10:map:" + type(e).__name__, (kind, eh, str(e)[:200]))
                # map_over node
                for ren in (False, True):
                    w = g.as_node().map_over(*order, mode=mode, error_handling=eh)
                    outs = {"key": "key", "e": "e", "o": "o"}
                    if ren:
                        w = w.with_outputs(e="o", o="e"); outs = {"key": "key", "e": "o", "o": "e"}
                    og = Graph([w])
                    try:
                        r = SyncRunner().run(og, {**lists, "bc": bc}) if kind == "sync" else asyncio.run(AsyncRunner().run(og, {**lists, "bc": bc}, max_concurrency=k))
                        if eh == "raise" and any(s[0] == RunStatus.FAILED for s in singles): fail("C10:node_raise_not_raised", (kind,)); continue
                        for name, ext in outs.items():
                            exp = [None if s[0] == RunStatus.FAILED else s[1].get(name) for s in singles]
                            if r.values.get(ext) != exp: fail(f"C10:node_lists:{'renamed' if ren else 'plain'}", (kind, eh, mode, order, lists, name, ext, r.values.get(ext), exp)); break
                    except Boom as e:
                        first = next((s[2] for s in singles if s[0] == RunStatus.FAILED), None)
                        if eh != "raise": fail("C10:node_raised_in_continue", (kind,))
                        elif e is not first: fail("C10:node_raise_not_first", (kind, repr(e), repr(first)))
                    except Exception as e:
                        fail("C10:node:" + type(e).__name__, (kind, eh, ren, str(e)[:200]))
    return cases, mixed

if __name__ == "__main__":
    print(main(int(sys.argv[1]), int(sys.argv[2])))
    for k, v in sorted(fails.items()):
        print("==", k, len(v)); print("   ", str(v[0])[:700])
