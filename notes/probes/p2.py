import warnings; warnings.simplefilter("ignore")
from hypergraph import Graph, node, route, ifelse, END, SyncRunner, AsyncRunner, InMemoryCache, FunctionNode, interrupt
import asyncio

print("=== doc chat loop (C04/C17)")
@node(output_name="response")
def generate(messages): return f"r{len(messages)}"
@node(output_name="messages", emit="turn_done")
def accumulate(messages, response): return messages + [response]
@route(targets=["generate", END], wait_for="turn_done")
def should_continue(messages): return END if len(messages) >= 10 else "generate"
g = Graph([generate, accumulate, should_continue])
print(g.inputs)
r = SyncRunner().run(g, {"messages": []})
print(len(r["messages"]), r.values)

print("=== same loop without emit/wait_for (gate reads state directly)")
@route(targets=["generate", END])
def sc2(messages): return END if len(messages) >= 10 else "generate"
g2 = Graph([generate, FunctionNode(accumulate.func, name="accumulate", output_name="messages"), sc2])
r = SyncRunner().run(g2, {"messages": []})
print(len(r["messages"]), r.values)

print("=== counter loop: while i<N")
log=[]
@node(output_name="i")
def inc(i): log.append(("inc",i)); return i+1
@route(targets=["inc", END])
def chk(i): log.append(("chk",i)); return "inc" if i < 3 else END
g3 = Graph([inc, chk]); print(g3.inputs)
for start in [0, 3, 5]:
    log.clear(); r = SyncRunner().run(g3, {"i": start}); print(start, r.values, log)

print("=== C05/C06: inner bound leaks under rename?")
@node(output_name="r")
def inner_f(x): return ("inner", x)
@node(output_name="o")
def other(x=100): return ("other", x)
inner = Graph([inner_f], name="inner").bind(x=5)
gn = inner.as_node().with_inputs(x="y")
og = Graph([gn, other])
print(og.inputs)
print(SyncRunner().run(og, {}).values)

print("=== C03: default_open early start")
log=[]
@node(output_name="p")
def prod(a): log.append("prod"); return a+1
@ifelse(when_true="T", when_false="F")
def gate(p): log.append("gate"); return p > 0
@node(output_name="t")
def T(a): log.append("T"); return ("T",a)
@node(output_name="f")
def F(a): log.append("F"); return ("F",a)
g4 = Graph([prod, gate, T, F])
print(SyncRunner().run(g4, {"a": 1}).values, log)
log.clear()
gate_closed = ifelse(when_true="T", when_false="F", default_open=False)(gate.func)
g5 = Graph([prod, gate_closed, T, F])
print(SyncRunner().run(g5, {"a": 1}).values, log)
