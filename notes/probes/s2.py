"""Throwaway smoke: C11/C12/C13 on random DAGs with nesting, map_over and an injected failure."""
import warnings; warnings.simplefilter("ignore")
import random, asyncio, sys, logging
logging.disable(logging.CRITICAL)
from hypergraph import Graph, SyncRunner, AsyncRunner, FunctionNode, RunStatus
from hypergraph.events import EventProcessor, AsyncEventProcessor
from hypergraph.events.types import RunStartEvent, RunEndEvent, NodeStartEvent, NodeEndEvent, NodeErrorEvent, CacheHitEvent, RouteDecisionEvent
import s1

class Injected(Exception): pass
FAIL = {"node": None, "exc": None}

def mkfunc(nid, params, defaults, nout):
    sig = ", ".join(p if p not in defaults else f"{p}=_d_{p}" for p in params)
    args = ", ".join(params)
    src = f"def {nid}({sig}):\n    return _impl('{nid}', ({args}{',' if params else ''}))\n"
    def _impl(n, a):
        s1.LOG.append((n, a))
        if FAIL["node"] == n: raise FAIL["exc"]
        if nout == 0: return None
        if nout == 1: return (n, 0, a)
        return tuple((n, i, a) for i in range(nout))
    ns = {"_impl": _impl}
    for p, v in defaults.items(): ns[f"_d_{p}"] = v
    exec(src, ns); return ns[nid]

def hn(nd, defaults):
    d = {p: defaults[p] for p in nd["params"] if p in defaults}
    f = mkfunc(nd["id"], nd["params"], d, len(nd["outs"]))
    on = None if not nd["outs"] else (nd["outs"][0] if len(nd["outs"]) == 1 else tuple(nd["outs"]))
    return FunctionNode(f, name=nd["id"], output_name=on)

def build_nested(nodes, defaults, rnd):
    """nest a contiguous interval [i,j) of the topological order (convex) as a GraphNode."""
    n = len(nodes)
    i = rnd.randrange(0, n); j = rnd.randrange(i + 1, n + 1)
    inner_nodes = nodes[i:j]
    # convexity: interval of topo order is convex iff no path leaves and re-enters; an interval always is convex
    # but inner graph needs >=1 node; outer gets the wrapper
    inner = Graph([hn(nd, defaults) for nd in inner_nodes], name="sub")
    outer_list = [hn(nd, defaults) for nd in nodes[:i]] + [inner.as_node()] + [hn(nd, defaults) for nd in nodes[j:]]
    rnd.shuffle(outer_list)
    return Graph(outer_list, name="top"), {nd["id"] for nd in inner_nodes}

class Rec(EventProcessor):
    def __init__(self): self.ev = []; self.sd = 0
    def on_event(self, e): self.ev.append(e)
    def shutdown(self): self.sd += 1
class ARec(AsyncEventProcessor):
    def __init__(self): self.ev = []; self.sd = 0
    async def on_event_async(self, e): self.ev.append(e)
    async def shutdown_async(self): self.sd += 1
class FailAt(EventProcessor):
    def __init__(self, k): self.k = k; self.i = 0
    def on_event(self, e):
        i = self.i; self.i += 1
        if self.k == "all" or i == self.k: raise RuntimeError("observer boom")
    def shutdown(self):
        if self.k in ("shutdown", "all"): raise RuntimeError("observer shutdown boom")
class AFailAt(AsyncEventProcessor):
    def __init__(self, k): self.k = k; self.i = 0
    async def on_event_async(self, e):
        i = self.i; self.i += 1
        if self.k == "all" or i == self.k: raise RuntimeError("observer boom")
    async def shutdown_async(self):
        if self.k in ("shutdown", "all"): raise RuntimeError("observer shutdown boom")

def check_tree(ev, sd, observed_failed):
    errs = []
    if not ev: return ["no events"]
    if not isinstance(ev[0], RunStartEvent) or ev[0].parent_span_id is not None: errs.append("first not top RunStart")
    if not isinstance(ev[-1], RunEndEvent) or ev[-1].span_id != ev[0].span_id: errs.append("last not top RunEnd")
    else:
        st = ev[-1].status.value
        if (st == "failed") != observed_failed: errs.append(f"status {st} vs observed_failed={observed_failed}")
    open_runs = {}; open_nodes = {}; closed = set()
    for idx, e in enumerate(ev):
        if isinstance(e, RunStartEvent):
            if e.span_id in open_runs or e.span_id in closed: errs.append("dup run span")
            if e.parent_span_id is not None and e.parent_span_id not in open_nodes and e.parent_span_id not in open_runs:
                errs.append(f"run parent not open @{idx}")
            if e.parent_span_id in open_runs and not open_runs[e.parent_span_id].is_map: errs.append("run parented to non-map run")
            open_runs[e.span_id] = e
        elif isinstance(e, RunEndEvent):
            if e.span_id not in open_runs: errs.append(f"RunEnd without start @{idx}")
            else:
                # all children closed
                for n in open_nodes.values():
                    if n.parent_span_id == e.span_id: errs.append(f"run closed with open node {n.node_name}")
                for r in open_runs.values():
                    if r.parent_span_id == e.span_id: errs.append("run closed with open child run")
                del open_runs[e.span_id]; closed.add(e.span_id)
        elif isinstance(e, NodeStartEvent):
            if e.parent_span_id not in open_runs: errs.append(f"node start in closed run @{idx}")
            elif open_runs[e.parent_span_id].run_id != e.run_id: errs.append("node run_id mismatch")
            if e.span_id in open_nodes or e.span_id in closed: errs.append("dup node span")
            open_nodes[e.span_id] = e
        elif isinstance(e, (NodeEndEvent, NodeErrorEvent)):
            if e.span_id not in open_nodes: errs.append(f"node end without start @{idx} {e.node_name}")
            else:
                s = open_nodes.pop(e.span_id); closed.add(e.span_id)
                if s.node_name != e.node_name or s.parent_span_id != e.parent_span_id or s.run_id != e.run_id: errs.append("node end mismatch")
                for r in open_runs.values():
                    if r.parent_span_id == e.span_id: errs.append("node closed with open child run")
        elif isinstance(e, CacheHitEvent):
            if e.span_id not in open_nodes: errs.append("cache hit outside node")
        elif isinstance(e, RouteDecisionEvent):
            if e.parent_span_id not in open_runs: errs.append("route decision outside run")
    if open_runs or open_nodes: errs.append(f"left open: runs={len(open_runs)} nodes={[n.node_name for n in open_nodes.values()]}")
    if sd != 1: errs.append(f"shutdown count {sd}")
    return errs

def norm(ev):
    return [(type(e).__name__, getattr(e, "node_name", None), getattr(e, "graph_name", None), str(getattr(e, "status", "")), getattr(e, "cached", None)) for e in ev]

fails = {}
LOGCOPY = []
def fail(kind, info): fails.setdefault(kind, []).append(info)

def run(kind, g, values, procs, eh):
    s1.LOG.clear()
    try:
        if kind == "sync": r = SyncRunner().run(g, dict(values), event_processors=procs, error_handling=eh)
        else: r = asyncio.run(AsyncRunner().run(g, dict(values), event_processors=procs, error_handling=eh))
        global LOGCOPY; LOGCOPY = list(s1.LOG)
        return ("ok", r.status, r.values, r.error, sorted(map(repr, s1.LOG)))
    except BaseException as e:
        return ("raised", None, None, e, sorted(map(repr, s1.LOG)))

def main(N, seed):
    rnd = random.Random(seed); cases = 0; sites = 0
    for _ in range(N):
        nodes, defaults = s1.gen(rnd)
        try: g, inner_ids = build_nested(nodes, defaults, rnd)
        except Exception as e: fail("build:" + type(e).__name__, (nodes, str(e)[:150])); continue
        cases += 1
        values = {p: ("in", p) for p in g.inputs.required}
        FAIL["node"] = rnd.choice([None] + [nd["id"] for nd in nodes]); FAIL["exc"] = Injected(FAIL["node"])
        env, runnable = s1.ref(nodes, defaults, {}, values)
        for kind in ("sync", "async"):
            for eh in ("raise", "continue"):
                base = run(kind, g, values, None, eh)
                rec = Rec() if kind == "sync" or rnd.random() < 0.5 else ARec()
                withrec = run(kind, g, values, [rec], eh)
                if base[:3] != withrec[:3] or base[3] is not withrec[3] and repr(base[3]) != repr(withrec[3]) or base[4] != withrec[4]:
                    fail("C13:recorder_changes_outcome", (nodes, FAIL["node"], kind, eh, base, withrec))
                failed_expected = FAIL["node"] is not None and runnable.get(FAIL["node"]) is not None
                observed_failed = withrec[0] == "raised" or withrec[1] == RunStatus.FAILED
                if observed_failed != failed_expected: fail("C11:fail_expectation", (nodes, FAIL["node"], kind, eh, withrec[:2]))
                if observed_failed:
                    err = withrec[3]
                    if err is not FAIL["exc"]: fail("C11:identity", (nodes, FAIL["node"], kind, eh, repr(err)))
                    if withrec[0] == "ok":
                        # partial values: correct, no failing/descendant outputs
                        last = {}
                        for (n, a) in LOGCOPY:
                            nd = next(x for x in nodes if x["id"] == n)
                            if n == FAIL["node"]: continue
                            for j, o in enumerate(nd["outs"]): last[o] = (n, j, a) if len(nd["outs"]) > 1 else (n, 0, a)
                        for k, v in withrec[2].items():
                            if last.get(k) != v: fail("C11:partial_wrong_value", (nodes, FAIL["node"], kind, k, v, last.get(k)))
                        # completeness: every completed invocation's outputs present
                        for k in last:
                            if k not in withrec[2]: fail("C11:partial_missing", (nodes, FAIL["node"], kind, k))
                        fo = set(next(nd for nd in nodes if nd["id"] == FAIL["node"])["outs"])
                        if fo & set(withrec[2]): fail("C11:failing_output_present", (nodes, FAIL["node"], kind, withrec[2]))
                errs = check_tree(rec.ev, rec.sd, observed_failed)
                if errs: fail("C12:" + errs[0][:40], (nodes, FAIL["node"], kind, eh, errs, norm(rec.ev)))
                # C13: fail at each index
                nev = len(rec.ev)
                ks = list(range(nev)) + ["shutdown", "all"]
                if len(ks) > 12: ks = rnd.sample(ks, 12)
                for k in ks:
                    rec2 = Rec()
                    F = FailAt(k) if (kind == "sync" or rnd.random() < 0.5) else AFailAt(k)
                    procs = [F, rec2] if rnd.random() < 0.5 else [rec2, F]
                    out = run(kind, g, values, procs, eh); sites += 1
                    same = out[:3] == base[:3] and (out[3] is base[3] or repr(out[3]) == repr(base[3])) and out[4] == base[4]
                    if not same: fail("C13:outcome_changed", (nodes, FAIL["node"], kind, eh, k, base, out))
                    if norm(rec2.ev) != norm(rec.ev): fail("C13:stream_changed", (nodes, FAIL["node"], kind, eh, k, norm(rec.ev), norm(rec2.ev)))
                    if rec2.sd != 1: fail("C13:healthy_shutdown", (nodes, kind, k, rec2.sd))
    return cases, sites

if __name__ == "__main__":
    print(main(int(sys.argv[1]), int(sys.argv[2])))
    for k, v in sorted(fails.items()):
        print("==", k, len(v)); print("   ", str(v[0])[:1500])
