"""Throwaway smoke: C20 on random DAGs with one/two nested levels (unique names, no renames): data-edge completeness + soundness."""
import warnings; warnings.simplefilter("ignore")
import random, sys, collections
from hypergraph import Graph, FunctionNode
from hypergraph.viz.renderer import render_graph
import s1, s2

fails = collections.defaultdict(list)
def fail(kind, info): fails[kind].append(info)

def build(nodes, defaults, rnd, depth2):
    n = len(nodes); i = rnd.randrange(0, n); j = rnd.randrange(i + 1, n + 1)
    path = {}   # leaf id -> hierarchical id
    inner_nodes = nodes[i:j]
    if depth2 and len(inner_nodes) >= 2:
        a = rnd.randrange(0, len(inner_nodes)); b = rnd.randrange(a + 1, len(inner_nodes) + 1)
        deep = Graph([s2.hn(nd, defaults) for nd in inner_nodes[a:b]], name="deep")
        lst = [s2.hn(nd, defaults) for nd in inner_nodes[:a]] + [deep.as_node()] + [s2.hn(nd, defaults) for nd in inner_nodes[b:]]
        inner = Graph(lst, name="sub")
        for k, nd in enumerate(inner_nodes): path[nd["id"]] = f"sub/deep/{nd['id']}" if a <= k < b else f"sub/{nd['id']}"
    else:
        inner = Graph([s2.hn(nd, defaults) for nd in inner_nodes], name="sub")
        for nd in inner_nodes: path[nd["id"]] = f"sub/{nd['id']}"
    for nd in nodes[:i] + nodes[j:]: path[nd["id"]] = nd["id"]
    outer = [s2.hn(nd, defaults) for nd in nodes[:i]] + [inner.as_node()] + [s2.hn(nd, defaults) for nd in nodes[j:]]
    rnd.shuffle(outer)
    return Graph(outer, name="top"), path

def ancestors(pid):
    parts = pid.split("/"); return ["/".join(parts[:k]) for k in range(len(parts) - 1, 0, -1)]

def main(N, seed, depth2):
    rnd = random.Random(seed); cases = 0; states = 0
    for _ in range(N):
        nodes, defaults = s1.gen(rnd)
        try: g, path = build(nodes, defaults, rnd, depth2)
        except Exception as e: fail("build:" + type(e).__name__, str(e)[:100]); continue
        cases += 1
        prod = {o: nd["id"] for nd in nodes for o in nd["outs"]}
        deps = {(prod[p], nd["id"], p) for nd in nodes for p in nd["params"] if p in prod}
        try: r = render_graph(g.to_flat_graph())
        except Exception as e: fail("render:" + type(e).__name__, (nodes, str(e)[:200])); continue
        nbs, ebs = r["meta"]["nodesByState"], r["meta"]["edgesByState"]
        if set(nbs) != set(ebs): fail("keys_differ", (nodes,)); continue
        for key in nbs:
            states += 1
            sep = key.endswith("sep:1")
            vis = {n["id"] for n in nbs[key] if not n.get("hidden")}
            allids = {n["id"] for n in nbs[key]}
            edges = ebs[key]
            for e in edges:
                for end in (e["source"], e["target"]):
                    if end not in allids: fail("endpoint_undeclared", (key, end, nodes)); 
                    elif end not in vis and e["data"].get("edgeType") != "input": fail("endpoint_hidden:" + e["data"].get("edgeType", "?"), (key, e["source"], e["target"], nodes, path))
            def reps(leaf):
                pid = path[leaf]; return [x for x in [pid] + ancestors(pid) if x in vis]
            E = {(e["source"], e["target"]) for e in edges}
            # completeness (data)
            for (p, c, v) in deps:
                rp, rc = reps(p), reps(c)
                if not rp or not rc: continue
                if set(rp) & set(rc) and rp[0] == rc[0]: continue   # same collapsed container
                ok = False
                for u in rp:
                    for w in rc:
                        if u == w: continue
                        if not sep and (u, w) in E: ok = True
                        if sep:
                            for e in edges:
                                if e["target"] == w and e["source"].startswith("data_") and e["data"].get("valueName") == v:
                                    d = e["source"]
                                    if any((uu, d) in E for uu in rp): ok = True
                if not ok:
                    # classify
                    inside_expanded = len(rc) > 1
                    fail(f"missing_data_edge:sep{int(sep)}:{'into_expanded' if inside_expanded else 'plain'}:{'from_expanded' if len(rp)>1 else 'plain'}", (key, p, c, v, rp, rc, nodes, path))
            # soundness (data edges, merged mode)
            if not sep:
                for e in edges:
                    if e["data"].get("edgeType") != "data": continue
                    u, w, v = e["source"], e["target"], e["data"].get("valueName")
                    if not any(u in reps(p) and w in reps(c) for (p, c, vv) in deps if vv == v):
                        fail("spurious_data_edge:sep0", (key, u, w, v, nodes, path))
    return cases, states

if __name__ == "__main__":
    print(main(int(sys.argv[1]), int(sys.argv[2]), sys.argv[3] == "1"))
    for k, v in sorted(fails.items()):
        print("==", k, len(v)); print("   ", str(v[0])[:900])
