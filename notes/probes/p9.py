import warnings; warnings.simplefilter("ignore")
from hypergraph import Graph, node, route, ifelse, END, SyncRunner, AsyncRunner, FunctionNode
log=[]
def L(*a): log.append(a)

print("=== do-while: gate reads body output; exit node")
@node(output_name="t")
def b1(i): L("b1",i); return i*10
@node(output_name="i")
def b2(t, i): L("b2",t,i); return i+1
@route(targets=["b1", "done"])
def g(t, i): L("g",t,i); return "b1" if i < 3 else "done"
@node(output_name="res")
def done(i, t): L("done",i,t); return ("res", i, t)
G = Graph([b1,b2,g,done]); print(G.inputs)
for start in [0,2,5]:
    log.clear(); r = SyncRunner().run(G, {"i": start}, entrypoint="b1" if "b1" in G.inputs.entrypoints else None); print(start, r.values); print("   ", log)

print("=== loop nested in GraphNode")
@node(output_name="n")
def inc(n): L("inc", n); return n+1
@route(targets=["inc", END])
def chk(n, limit): L("chk", n); return "inc" if n < limit else END
loop = Graph([inc, chk], name="loop")
@node(output_name="limit")
def mk(x): return x+2
@node(output_name="out")
def fin(n): return ("fin", n)
outer = Graph([mk, loop.as_node(), fin]); print(outer.inputs)
log.clear(); r = SyncRunner().run(outer, {"x": 1, "n": 0}); print(r.values, log)

print("=== accumulator ungated self-producer")
@node(output_name="acc")
def acc(acc, item): L("acc", acc, item); return acc + [item]
@node(output_name="item")
def nxt(k): L("nxt", k); return ("item", k)
@node(output_name="k")
def adv(k): L("adv", k); return k+1
@route(targets=["adv", END])
def more(k): L("more", k); return "adv" if k < 3 else END
A = Graph([acc, nxt, adv, more]); print(A.inputs)
log.clear()
try:
    r = SyncRunner().run(A, {"k": 0, "acc": []}); print(r.values); print("   ", log)
except Exception as e: print("ERR", type(e).__name__, str(e)[:300])
