"""Throwaway smoke: C05 nested vs flat, with inner/outer bindings and wrapper renames through permuted inner names."""
import warnings; warnings.simplefilter("ignore")
import random, sys
from hypergraph import Graph, SyncRunner, FunctionNode
import s1, s2

fails = {}
def fail(kind, info): fails.setdefault(kind, []).append(info)

def main(N, seed, use_rename, use_bind):
    rnd = random.Random(seed); cases = 0
    for _ in range(N):
        nodes, defaults = s1.gen(rnd)
        n = len(nodes); i = rnd.randrange(0, n); j = rnd.randrange(i + 1, n + 1)
        flat = Graph([s2.hn(nd, defaults) for nd in nodes], name="flat")
        inner_nodes = nodes[i:j]
        inner_hn = [s2.hn(nd, defaults) for nd in inner_nodes]
        # permute inner names: apply a bijection sigma on all names appearing in inner nodes, then wrapper maps back
        names = sorted({p for nd in inner_nodes for p in nd["params"]} | {o for nd in inner_nodes for o in nd["outs"]})
        sigma = {x: x for x in names}
        if use_rename and len(names) >= 2:
            perm = names[:]; rnd.shuffle(perm); sigma = dict(zip(names, perm))
        try:
            ren = []
            for nd, h in zip(inner_nodes, inner_hn):
                im = {p: sigma[p] for p in nd["params"] if sigma[p] != p}
                om = {o: sigma[o] for o in nd["outs"] if sigma[o] != o}
                if im: h = h.with_inputs(im)
                if om: h = h.with_outputs(om)
                ren.append(h)
            inner = Graph(ren, name="sub")
        except Exception as e:
            fail("inner_build:" + type(e).__name__, (nodes, sigma, str(e)[:200])); continue
        # bindings: choose some flat inputs to bind
        flat_inputs = list(flat.inputs.required) + list(flat.inputs.optional)
        bound = {p: ("bound", p) for p in flat_inputs if use_bind and rnd.random() < 0.3}
        inner_in = set(inner.inputs.all)
        inner_bind = {sigma[p]: v for p, v in bound.items() if p in sigma and sigma[p] in inner_in and rnd.random() < 0.6
                      and not any(p in nd["params"] for nd in nodes[:i] + nodes[j:])}
        outer_bind = {p: v for p, v in bound.items() if not (p in sigma and sigma[p] in inner_bind)}
        try:
            if inner_bind: inner = inner.bind(**inner_bind)
            w = inner.as_node()
            inv = {v: k for k, v in sigma.items()}
            im = {x: inv[x] for x in w.inputs if inv.get(x, x) != x}
            om = {x: inv[x] for x in w.outputs if inv.get(x, x) != x}
            if im: w = w.with_inputs(im)
            if om: w = w.with_outputs(om)
            outer_list = [s2.hn(nd, defaults) for nd in nodes[:i]] + [w] + [s2.hn(nd, defaults) for nd in nodes[j:]]
            rnd.shuffle(outer_list)
            nested = Graph(outer_list, name="top")
            if outer_bind: nested = nested.bind(**outer_bind)
        except Exception as e:
            fail("nested_build:" + type(e).__name__, (nodes, defaults, i, j, sigma, inner_bind, outer_bind, str(e)[:300])); continue
        fb = flat.bind(**bound) if bound else flat
        cases += 1
        if set(fb.inputs.required) != set(nested.inputs.required) or set(fb.inputs.optional) != set(nested.inputs.optional):
            fail("C05:inputs", (nodes, defaults, i, j, sigma, inner_bind, outer_bind, fb.inputs, nested.inputs)); continue
        values = {p: ("in", p) for p in fb.inputs.required}
        for p in fb.inputs.optional:
            if rnd.random() < 0.3: values[p] = ("in", p)
        try:
            rf = SyncRunner().run(fb, dict(values)); s1.LOG.clear(); rn = SyncRunner().run(nested, dict(values))
        except Exception as e:
            fail("C05:run:" + type(e).__name__, (nodes, defaults, i, j, sigma, inner_bind, outer_bind, str(e)[:300])); continue
        if rf.values != rn.values:
            fail("C05:values", (nodes, defaults, i, j, sigma, inner_bind, outer_bind, values, {k: (rf.values.get(k), rn.values.get(k)) for k in set(rf.values) | set(rn.values) if rf.values.get(k) != rn.values.get(k)}))
    return cases

if __name__ == "__main__":
    print(main(int(sys.argv[1]), int(sys.argv[2]), sys.argv[3] == "1", sys.argv[4] == "1"))
    for k, v in sorted(fails.items()):
        print("==", k, len(v)); print("   ", str(v[0])[:1600])
