"""Throwaway smoke: C04/C17 structured loops vs sequential reference."""
import warnings; warnings.simplefilter("ignore")
import random, sys, asyncio, collections
from hypergraph import Graph, SyncRunner, AsyncRunner, FunctionNode, END, InfiniteLoopError
from hypergraph.nodes.gate import RouteNode, IfElseNode

fails = collections.defaultdict(list)
def fail(kind, info): fails[kind].append(info)
CNT = collections.Counter()

def mk(name, params, body):
    src = f"def {name}({', '.join(params)}):\n    CNT['{name}'] += 1\n    return {body}\n"
    ns = {"CNT": CNT}; exec(src, ns); return ns[name]

def build(spec):
    """spec: k body nodes b0..b{k-1}; state var i (int), acc (list); chain vars t0..t{k-2};
       b_j reads (prev chain var or i) and i ; last body node writes i+1; optional accumulator node."""
    k, kind, gatekind, exitnode, sync, dopen, limit, use_acc = spec
    nodes = []
    for j in range(k):
        last = j == k - 1
        src_var = "i" if j == 0 else f"t{j-1}"
        out = "i" if last else f"t{j}"
        body = f"{src_var} + 1" if last else f"{src_var}"
        emit = "tick" if (sync and last) else None
        nodes.append(FunctionNode(mk(f"b{j}", [src_var], body), name=f"b{j}", output_name=out, emit=emit))
    if use_acc:
        nodes.append(FunctionNode(mk("nxt", ["i"], "('item', i)"), name="nxt", output_name="item"))
        nodes.append(FunctionNode(mk("acc", ["acc", "item"], "acc + [item]"), name="acc", output_name="acc"))
    cont = "b0"; stop = "done" if exitnode else END
    gparams = ["i"]
    wf = "tick" if sync else None
    if gatekind == "route":
        g = RouteNode(mk("g", gparams, f"'b0' if i < {limit} else {'None' if False else repr(stop) if exitnode else 'END_'}"), targets=[cont, stop], default_open=dopen, name="g", wait_for=wf)
        g.func.__globals__["END_"] = END
    else:
        g = IfElseNode(mk("g", gparams, f"i < {limit}"), when_true=cont, when_false=stop, default_open=dopen, name="g", wait_for=wf)
    nodes.append(g)
    if exitnode:
        nodes.append(FunctionNode(mk("done", ["i"], "('done', i)"), name="done", output_name="res"))
    return Graph(nodes)

def reference(spec, start):
    k, kind, gatekind, exitnode, sync, dopen, limit, use_acc = spec
    i = start; cnt = collections.Counter(); env = {}; acc = []
    items = []
    def body():
        nonlocal i
        for j in range(k):
            cnt[f"b{j}"] += 1
            if j < k - 1: env[f"t{j}"] = i
        i = i + 1
    if sync:
        # gate waits for tick => do-while: body first, then test
        body()
        while i < limit: body()
    else:
        while i < limit: body()
    env["i"] = i
    if use_acc:
        env["acc"] = [("item", x) for x in range(start, i + 1)]; env["item"] = ("item", i)
        cnt["acc"] = cnt["nxt"] = i - start + 1
    if exitnode: env["res"] = ("done", i); cnt["done"] += 1
    return env, cnt

def main(N, seed):
    rnd = random.Random(seed); cases = 0
    for _ in range(N):
        k = rnd.randint(1, 3)
        spec = (k, "while", rnd.choice(["route", "ifelse"]), rnd.random() < 0.5, rnd.random() < 0.4, rnd.random() < 0.5, rnd.randint(0, 6), rnd.random() < 0.4)
        sync = spec[4]
        if sync and not spec[5]:
            spec = spec[:5] + (True,) + spec[6:]   # do-while needs default_open
        start = rnd.randint(0, 4)
        try: g = build(spec)
        except Exception as e: fail("build:" + type(e).__name__, (spec, str(e)[:200])); continue
        cases += 1
        values = {"i": start}
        if spec[7]: values["acc"] = []
        env, cnt = reference(spec, start)
        for kind in ("sync", "async"):
            CNT.clear()
            try:
                kw = {"entrypoint": "b0"} if "b0" in g.inputs.entrypoints and len(g.inputs.entrypoints) > 1 else {}
                r = SyncRunner().run(g, dict(values), **kw) if kind == "sync" else asyncio.run(AsyncRunner().run(g, dict(values), **kw))
            except Exception as e:
                fail("run:" + type(e).__name__, (spec, start, g.inputs, str(e)[:300])); continue
            got = dict(r.values)
            if got != env: fail(f"C04:values:sync{int(sync)}", (spec, start, got, env))
            for n in cnt:
                if CNT[n] != cnt[n]: fail(f"C04:count:sync{int(sync)}", (spec, start, n, CNT[n], cnt[n], dict(CNT))); break
    return cases

if __name__ == "__main__":
    print(main(int(sys.argv[1]), int(sys.argv[2])))
    for k, v in sorted(fails.items()):
        print("==", k, len(v)); print("   ", str(v[0])[:700])
