import warnings; warnings.simplefilter("ignore")
from hypergraph import Graph, node, route, ifelse, END
from hypergraph.viz.renderer import render_graph
import json

@node(output_name="v")
def P(x): return x
@node(output_name="c1o")
def c1(v): return v
@node(output_name="c2o")
def c2(v, c1o): return v
inner = Graph([c1, c2], name="inner")
@node(output_name="z")
def Z(c2o, v): return 1
g = Graph([P, inner.as_node(), Z])
flat = g.to_flat_graph()
print("flat nodes", [(n, d['parent'], d['node_type']) for n, d in flat.nodes(data=True)])
print("flat edges", [(u, v, d.get('edge_type'), d.get('value_names')) for u, v, d in flat.edges(data=True)])
r = render_graph(flat, depth=0)
for key in r["meta"]["nodesByState"]:
    ns = r["meta"]["nodesByState"][key]; es = r["meta"]["edgesByState"][key]
    print("STATE", key)
    print("  nodes", [(n["id"], n["data"]["nodeType"], n.get("hidden"), n.get("parentNode")) for n in ns])
    print("  edges", [(e["source"], e["target"], e["data"].get("edgeType"), e["data"].get("valueName")) for e in es])
print(g.to_mermaid(depth=1).source)
