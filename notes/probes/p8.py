import warnings; warnings.simplefilter("ignore")
from hypergraph import Graph, node, route, ifelse, END
from hypergraph.viz.renderer import render_graph
@ifelse(when_true="t", when_false="f")
def gate(x): return x > 0
@node(output_name="r")
def t(x): return 1
@node(output_name="r")
def f(x): return 2
@node(output_name="m")
def merge(r): return r
g = Graph([gate, t, f, merge])
print([(u,v,d.get('edge_type'),d.get('value_names')) for u,v,d in g.nx_graph.edges(data=True)])
r = render_graph(g.to_flat_graph())
for key in r["meta"]["edgesByState"]:
    es = r["meta"]["edgesByState"][key]
    print(key, [(e["source"], e["target"], e["data"].get("edgeType"), e["data"].get("valueName")) for e in es])
print(g.to_mermaid().source.split("%% Styling")[0])
