"""Throwaway smoke: C03 activation monitor on random DAGs with ifelse/route gates (incl. shared targets, END, None, multi_target)."""
import warnings; warnings.simplefilter("ignore")
import random, sys, zlib, asyncio
from hypergraph import Graph, SyncRunner, AsyncRunner, FunctionNode, END
from hypergraph.nodes.gate import RouteNode, IfElseNode
import s1, s2

fails = {}
def fail(kind, info): fails.setdefault(kind, []).append(info)

def mkgate(gid, params, table, kind):
    args = ", ".join(params)
    src = f"def {gid}({args}):\n    return _impl(({args}{',' if params else ''}))\n"
    def _impl(a):
        d = table[zlib.crc32(repr(a).encode()) % len(table)]
        s1.LOG.append(("GATE", gid, d))
        return d
    ns = {"_impl": _impl}; exec(src, ns); return ns[gid]

def main(N, seed):
    rnd = random.Random(seed); cases = 0; excl = 0; shared = 0
    for _ in range(N):
        nodes, defaults = s1.gen(rnd)
        if len(nodes) < 3: continue
        names = sorted({p for nd in nodes for p in nd["params"]} | {o for nd in nodes for o in nd["outs"]})
        gates = []
        hns = [s2.hn(nd, defaults) for nd in nodes]
        ctrl = {}
        for gi in range(rnd.randint(1, 3)):
            gid = f"g{gi}"
            params = rnd.sample([x for x in names if x not in defaults], min(len([x for x in names if x not in defaults]), rnd.randint(0, 2)))
            dopen = rnd.random() < 0.5
            if rnd.random() < 0.4:
                t = rnd.sample([nd["id"] for nd in nodes], 2)
                wt, wf = t[0], (t[1] if rnd.random() < 0.8 else END)
                table = [True, False]
                g = IfElseNode(mkgate(gid, params, table, "ifelse"), when_true=wt, when_false=wf, default_open=dopen, name=gid)
                tg = [x for x in (wt, wf) if x is not END]
                dec = {True: wt, False: wf}
            else:
                multi = rnd.random() < 0.3
                t = rnd.sample([nd["id"] for nd in nodes], rnd.randint(1, min(3, len(nodes))))
                targets = t + ([END] if rnd.random() < 0.5 else [])
                if multi:
                    table = [rnd.sample(t, rnd.randint(0, len(t))) for _ in range(3)]
                else:
                    table = targets + [None]
                try:
                    g = RouteNode(mkgate(gid, params, table, "route"), targets=targets, multi_target=multi, default_open=dopen, name=gid)
                except Exception as e:
                    fail("gate_build:" + type(e).__name__, str(e)[:100]); continue
                tg = t; dec = None
            gates.append((gid, g, tg, dopen, dec))
            for x in tg: ctrl.setdefault(x, []).append(gid)
        allnodes = hns + [g for _, g, _, _, _ in gates]; rnd.shuffle(allnodes)
        try: G = Graph(allnodes)
        except Exception as e:
            fail("build:" + type(e).__name__ + ":" + str(e)[:30], str(e)[:150]); continue
        if G.has_cycles: continue
        cases += 1
        values = {p: ("in", p) for p in G.inputs.required}
        for kind in ("sync", "async"):
            s1.LOG.clear()
            try:
                r = SyncRunner().run(G, dict(values)) if kind == "sync" else asyncio.run(AsyncRunner().run(G, dict(values)))
            except Exception as e:
                fail("run:" + type(e).__name__, (nodes, [(gid, tg, dopen) for gid, _, tg, dopen, _ in gates], str(e)[:200])); continue
            latest = {}; executed = set()
            gd = {gid: (tg, dopen, dec) for gid, _, tg, dopen, dec in gates}
            for ent in s1.LOG:
                if ent[0] == "GATE":
                    _, gid, d = ent
                    if gd[gid][2] is not None: d = gd[gid][2][d]
                    latest[gid] = d; executed.add(gid)
                else:
                    n, a = ent
                    if n in ctrl:
                        ok = False; blocked_by = []
                        for gid in ctrl[n]:
                            if gid in executed:
                                d = latest[gid]
                                if d == n or (isinstance(d, list) and n in d): ok = True
                                else: blocked_by.append((gid, d))
                            elif gd[gid][1]: ok = True
                            else: blocked_by.append((gid, "closed-undecided"))
                        if not ok: fail("C03:started_unselected", (kind, nodes, defaults, [(gid, tg, dopen) for gid, _, tg, dopen, _ in gates], n, blocked_by, list(s1.LOG)))
                        if blocked_by and ok: shared += 1
            # closed gates: executed targets == selected at some time
            for n in ctrl:
                if all(not gd[g][1] for g in ctrl[n]):
                    ran = any(e[0] == n for e in s1.LOG if e[0] != "GATE")
                    if not ran: excl += 1
    return cases, excl, shared

if __name__ == "__main__":
    print(main(int(sys.argv[1]), int(sys.argv[2])))
    for k, v in sorted(fails.items()):
        print("==", k, len(v)); print("   ", str(v[0])[:1500])
