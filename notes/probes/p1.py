import warnings; warnings.simplefilter("ignore")
from hypergraph import Graph, node, route, ifelse, END, SyncRunner, AsyncRunner, InMemoryCache
import asyncio

print("=== C06: swap rename on GraphNode with default resolution")
@node(output_name="r")
def f(x, y=10):
    return ("x", x, "y", y)
inner = Graph([f], name="inner")
gn = inner.as_node()
print("inputs", gn.inputs, "has_default x,y:", gn.has_default_for("x"), gn.has_default_for("y"))
sw = gn.with_inputs(x="y", y="x")
print("swapped inputs", sw.inputs)
for p in sw.inputs:
    print(" ", p, "resolve->", sw._resolve_original_input_name(p), "has_default", sw.has_default_for(p), "map", sw.map_inputs_to_params({p: 1}))
try:
    g = Graph([sw])
    print("graph inputs", g.inputs)
    # current 'y' is original x (required) ; current 'x' is original y (default 10)
    r = SyncRunner().run(g, {"y": 1})
    print("run y=1 ->", r.values)
except Exception as e:
    print("ERR", type(e).__name__, e)

print("=== C06: output rename chain through temp name on GraphNode")
@node(output_name="a")
def g1(x): return x+1
inner2 = Graph([g1], name="inner2")
gn2 = inner2.as_node().with_outputs(a="b").with_outputs(b="c").with_outputs(c="b")
print("outputs", gn2.outputs, "map", gn2.map_outputs_from_original({"a": 5}))
try:
    print(SyncRunner().run(Graph([gn2]), {"x": 1}).values)
except Exception as e:
    print("ERR", type(e).__name__, e)

print("=== C09: same func, different output names, cache collision")
def h(x): return x*2
n1 = node(h, output_name="p", cache=True)
from hypergraph import FunctionNode
n1 = FunctionNode(h, name="n1", output_name="p", cache=True)
n2 = FunctionNode(h, name="n2", output_name="q", cache=True)
g = Graph([n1, n2])
print("uncached", SyncRunner().run(g, {"x": 3}).values)
print("cached  ", SyncRunner(cache=InMemoryCache()).run(g, {"x": 3}).values)

print("=== C10: map_over with branch-dependent outputs")
@ifelse(when_true="big", when_false="small")
def gate(v): return v > 5
@node(output_name="b")
def big(v): return v*10
@node(output_name="s")
def small(v): return -v
inner3 = Graph([gate, big, small], name="inner3")
outer = Graph([inner3.as_node().map_over("v")])
print(SyncRunner().run(outer, {"v": [1, 9, 2]}).values)

print("=== C17: re-emission liveness")
calls = []
@node(output_name="n", emit="tick")
def step(n):
    calls.append(("step", n)); return n + 1
@route(targets=["step", END], wait_for="tick")
def again(n):
    calls.append(("gate", n)); return "step" if n < 5 else END
g = Graph([step, again])
print(g.inputs)
try:
    r = SyncRunner().run(g, {"n": 0})
    print(r.values, calls)
except Exception as e:
    print("ERR", type(e).__name__, e)

print("=== C19: unknown gate target with >=2 real targets")
@route(targets=["big", "small", "nope"])
def rg(v): return "big"
try:
    Graph([rg, big, small])
    print("accepted!")
except Exception as e:
    print(type(e).__module__, type(e).__name__, str(e)[:100])
@route(targets=["big", "nope"])
def rg2(v): return "big"
try:
    Graph([rg2, big, small])
    print("accepted!")
except Exception as e:
    print(type(e).__module__, type(e).__name__, str(e)[:100])
